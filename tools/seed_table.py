#!/usr/bin/env python3
"""Rewrites the table of section 10 of DESIGN.md from seeded/*/meta.json."""
import glob, json, os, re
ROOT = os.path.dirname(os.path.dirname(os.path.abspath(__file__)))
rows = []
for f in sorted(glob.glob(os.path.join(ROOT, 'seeded', 'C*', 'meta.json'))):
    m = json.load(open(f))
    res = m.get('checks_run', {}).get('results', {})
    det = [p for p, r in sorted(res.items()) if r.get('exit_code') == 1]
    miss = [p for p, r in sorted(res.items()) if r.get('exit_code') == 0]
    inc = [p for p, r in sorted(res.items()) if r.get('exit_code') == 2]
    first = ''
    for p in det:
        first = res[p].get('first_violation', '').split('  ')[0]
        break
    summ = m.get('summary', '').replace('|', '/').replace('\n', ' ')
    if len(summ) > 170: summ = summ[:167] + '...'
    rows.append('| %s | %s | %s | %s | %s | %s |' % (m['id'], m.get('breaks_property', ''), summ, ', '.join(det) or '—', ', '.join(miss + [x + ' (inconclusive)' for x in inc]) or '', (m.get('note', '') or '').replace('|', '/')))
n = len(rows); ndet = sum(1 for r in rows if not r.split('|')[4].strip() == '—')
table = ['<!-- SEEDTABLE:BEGIN -->', '', '%d independently written changes (each compiles, passes the unedited 28-case suite, and fails its own demonstration); %d are reported by at least one quick check (exit 1, replay-confirmed), %d by none.' % (n, ndet, n - ndet), '',
         '| seed | written against | change | reported by (quick tier) | run, not reported | note |', '|---|---|---|---|---|---|'] + rows + ['', '<!-- SEEDTABLE:END -->']
p = os.path.join(ROOT, 'DESIGN.md')
s = open(p).read()
if '<!-- SEEDTABLE:BEGIN -->' in s:
    s = re.sub(r'<!-- SEEDTABLE:BEGIN -->.*<!-- SEEDTABLE:END -->', lambda _: '\n'.join(table), s, flags=re.S)
else:
    s = s.rstrip('\n') + '\n\n' + '\n'.join(table) + '\n'
open(p, 'w').write(s)
print('table with %d rows, %d detected' % (n, ndet))
