#!/bin/bash
# Confirms a seeded change in a scratch worktree of /repo (removed afterwards):
#   the patch applies, the library's unedited 28-case suite still passes with it,
#   the demonstration fails with it and passes without it.
# usage: tools/confirm_seed.sh <dir with patch.diff, demo.cpp, meta.json>      prints a JSON verdict on the last line
set -u
D=$(realpath "$1"); ID=$(basename "$D")
WT=$(mktemp -d /tmp/seedconf_${ID}.XXXXXX); rmdir "$WT"
git -C /repo worktree add -q --detach "$WT" HEAD || { echo '{"id":"'$ID'","ok":false,"why":"worktree"}'; exit 2; }
cleanup() { git -C /repo worktree remove --force "$WT" >/dev/null 2>&1; rm -rf "$WT" /tmp/seedconf_demo_${ID}_*; }
trap cleanup EXIT
extra=""; grep -q pthread "$D/meta.json" "$D/demo.cpp" 2>/dev/null && extra="-pthread"
demo() { g++ -std=c++17 -O1 $extra -I "$WT/include" "$D/demo.cpp" -o /tmp/seedconf_demo_${ID}_$1 >/dev/null 2>&1 || { echo build-failed; return; }; timeout 300 /tmp/seedconf_demo_${ID}_$1 >/dev/null 2>&1; echo $?; }
clean_rc=$(demo clean)
git -C "$WT" apply "$D/patch.diff" || { echo '{"id":"'$ID'","ok":false,"why":"patch does not apply"}'; exit 1; }
patched_rc=$(demo patched)
B="$WT/_b"
cmake -S "$WT" -B "$B" -G Ninja -DCMAKE_BUILD_TYPE=RelWithDebInfo -DCMAKE_CXX_FLAGS=-Wno-error >/dev/null 2>&1 && cmake --build "$B" -j${SEED_JOBS:-8} >/dev/null 2>&1
if [ -x "$B/tests/test" ]; then "$B/tests/test" >"$B/test.log" 2>&1; trc=$?; tests=$(grep -c "No errors detected" "$B/test.log"); ncases=$(grep -o "Running [0-9]* test cases" "$B/test.log" | grep -o "[0-9]*"); else trc=build-failed; tests=0; ncases=0; fi
ok=false; [ "$clean_rc" = "0" ] && [ "$patched_rc" != "0" ] && [ "$patched_rc" != "build-failed" ] && [ "$trc" = "0" ] && [ "$tests" = "1" ] && [ "$ncases" = "28" ] && ok=true
echo '{"id":"'$ID'","ok":'$ok',"demo_clean_rc":"'$clean_rc'","demo_patched_rc":"'$patched_rc'","suite_rc":"'$trc'","suite_cases":"'$ncases'","suite_no_errors":'$tests'}'
