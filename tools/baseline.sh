#!/bin/bash
# Runs the repository's own 28-case Boost.Test suite (guard OFF, no verification defines)
# from /repo's current working tree in a scratch build directory that is removed afterwards.
# usage: tools/baseline.sh [repo_dir]
set -u
REPO=${1:-/repo}
B=$(mktemp -d /tmp/bsb_baseline.XXXXXX)
trap 'rm -rf "$B"' EXIT
cmake -S "$REPO" -B "$B" -G Ninja -DCMAKE_BUILD_TYPE=RelWithDebInfo -DCMAKE_CXX_FLAGS=-Wno-error >"$B/cmake.log" 2>&1 || { cat "$B/cmake.log"; echo "BASELINE: configure failed"; exit 2; }
cmake --build "$B" -j16 >"$B/build.log" 2>&1 || { tail -50 "$B/build.log"; echo "BASELINE: build failed"; exit 2; }
"$B/tests/test" --log_level=test_suite --report_level=short >"$B/test.log" 2>&1
rc=$?
passed=$(grep -c 'Leaving test case' "$B/test.log")
grep -E 'error|failed|Test module|test cases' "$B/test.log" | head -20
echo "BASELINE: exit=$rc test_cases_run=$passed"
exit $rc
