#!/usr/bin/env python3
"""Assembles /verif/seeded/<id>/ from the sub-agents' deliveries, the confirmation log and the detection runs.
usage: tools/build_seeded.py <pending dir>[,<pending dir>...] <confirm.log>[,<confirm.log>...] <notes.json> <matrix log> [<matrix log> ...]"""
import json, os, re, shutil, sys
pendings, confirms, notes = sys.argv[1].split(','), sys.argv[2].split(','), json.load(open(sys.argv[3]))
conf = {}
for confirm in confirms:
    for ln in open(confirm):
        ln = ln.strip()
        if ln.startswith('{'):
            d = json.loads(ln); conf[d['id']] = d
runs = {}
for f in sys.argv[4:]:
    for ln in open(f):
        m = re.match(r'^(C\d+(?:-r[234])?-\d+) (C\d+) rc=(\d+) ?(.*)$', ln.strip())
        if m:
            r = runs.setdefault(m.group(1), {}).setdefault(m.group(2), [])
            r.append(dict(exit_code=int(m.group(3)), first_violation=m.group(4).strip()))
root = os.path.join(os.path.dirname(os.path.dirname(os.path.abspath(__file__))), 'seeded')
for pending, sid in sorted((p, x) for p in pendings for x in os.listdir(p)):
    src = os.path.join(pending, sid); dst = os.path.join(root, sid)
    if not conf.get(sid, {}).get('ok'):
        print('skip (not confirmed):', sid); continue
    os.makedirs(dst, exist_ok=True)
    for fn in ('patch.diff', 'demo.cpp'): shutil.copy(os.path.join(src, fn), os.path.join(dst, fn))
    meta = json.load(open(os.path.join(src, 'meta.json')))
    meta['demo_build_cmd'] = re.sub(r'/tmp/seed[234]?_C\d+', '<worktree>', meta.get('demo_build_cmd', ''))
    meta['id'] = sid
    meta['breaks_property'] = meta.get('property', sid.split('-')[0])
    meta['written_by'] = 'independent sub-agent given only the text of the property and a scratch worktree of /repo (nothing from /verif)'
    meta['confirmed_by_me'] = dict(how='tools/confirm_seed.sh in a fresh scratch worktree of /repo HEAD: patch applies; unedited 28-case suite passes with it; demo exits 0 without and non-zero with the patch',
                                   result=conf[sid])
    meta['checks_run'] = dict(how='tools/run_seed.sh <seed> <property>: quick tier of ./check against a scratch worktree with the patch applied (VERIF_REPO), exit 1 = VIOLATION reported (replay-confirmed), 0 = not detected, 2 = inconclusive',
                              results={p: (r[-1] if len(r) == 1 else dict(r[-1], earlier_runs=r[:-1])) for p, r in runs.get(sid, {}).items()})
    meta['detected_by'] = sorted(p for p, r in runs.get(sid, {}).items() if r[-1]['exit_code'] == 1)
    if sid in notes: meta['note'] = notes[sid]
    json.dump(meta, open(os.path.join(dst, 'meta.json'), 'w'), indent=1)
print('seeded/: %d changes' % len(os.listdir(root)))
