#!/usr/bin/env python3
"""Assembles /verif/seeded/<id>/ from the sub-agents' deliveries, the confirmation log and the detection runs.
usage: tools/build_seeded.py <pending dir> <confirm.log> <matrix log> [<matrix log> ...]"""
import json, os, re, shutil, sys
pending, confirm = sys.argv[1], sys.argv[2]
conf = {}
for ln in open(confirm):
    ln = ln.strip()
    if ln.startswith('{'):
        d = json.loads(ln); conf[d['id']] = d
runs = {}
for f in sys.argv[3:]:
    for ln in open(f):
        m = re.match(r'^(C\d+-\d+) (C\d+) rc=(\d+) ?(.*)$', ln.strip())
        if m: runs.setdefault(m.group(1), {})[m.group(2)] = dict(exit_code=int(m.group(3)), first_violation=m.group(4).strip())
root = os.path.join(os.path.dirname(os.path.dirname(os.path.abspath(__file__))), 'seeded')
for sid in sorted(os.listdir(pending)):
    src = os.path.join(pending, sid); dst = os.path.join(root, sid)
    if not conf.get(sid, {}).get('ok'):
        print('skip (not confirmed):', sid); continue
    os.makedirs(dst, exist_ok=True)
    for fn in ('patch.diff', 'demo.cpp'): shutil.copy(os.path.join(src, fn), os.path.join(dst, fn))
    meta = json.load(open(os.path.join(src, 'meta.json')))
    meta['demo_build_cmd'] = re.sub(r'/tmp/seed_C\d+', '<worktree>', meta.get('demo_build_cmd', ''))
    meta['id'] = sid
    meta['breaks_property'] = meta.get('property', sid.split('-')[0])
    meta['written_by'] = 'independent sub-agent given only the text of the property and a scratch worktree of /repo (nothing from /verif)'
    meta['confirmed_by_me'] = dict(how='tools/confirm_seed.sh in a fresh scratch worktree of /repo HEAD: patch applies; unedited 28-case suite passes with it; demo exits 0 without and non-zero with the patch',
                                   result=conf[sid])
    meta['checks_run'] = dict(how='tools/run_seed.sh <seed> <property>: quick tier of ./check against a scratch worktree with the patch applied (VERIF_REPO), exit 1 = VIOLATION reported (replay-confirmed), 0 = not detected, 2 = inconclusive',
                              results=runs.get(sid, {}))
    meta['detected_by'] = sorted(p for p, r in runs.get(sid, {}).items() if r['exit_code'] == 1)
    json.dump(meta, open(os.path.join(dst, 'meta.json'), 'w'), indent=1)
print('seeded/: %d changes' % len(os.listdir(root)))
