#!/usr/bin/env python3-vt
"""Regenerates /verif/MANIFEST.json from props.py (claimed checks) and props.NOT_APPLICABLE."""
import json, os, sys
ROOT = os.path.dirname(os.path.dirname(os.path.abspath(__file__)))
sys.path.insert(0, ROOT)
import props
import jsonschema

checks = []
for pid, sp in sorted(props.PROPS.items()):
    checks.append(dict(
        property_id=pid,
        quick_cmd='./check %s --tier quick' % pid,
        thorough_cmd='./check %s --tier thorough' % pid,
        evidence_file='evidence/%s.json' % pid,
        replay_cmd_template='./check %s --replay {path}' % pid,
        engine='symT (Engine A)' if sp.get('engine', 'A') == 'A' else ('irsym (Engine B)' if sp['engine'] == 'B' else 'symT + irsym'),
        level_claimed=dict(category='model_checking', text=sp['level_text'], design_ref=sp.get('design_ref', 'DESIGN.md section 5, ' + pid)),
        level_note=sp['level_note'],
        technique=sp['technique']))
man = dict(
    version=1,
    setup_cmd='mkdir -p /verif/_work /verif/evidence /verif/replays && python3-vt -c "import z3" && g++ --version >/dev/null && clang++-14 --version >/dev/null',
    hooks=dict(guard='BSPLINE_VERIF', enable='none needed: checks compile harnesses in /verif against /repo/include (public API and extern "C" wrappers that live in /verif); no hook exists in /repo',
               baseline_off_cmd='/verif/tools/baseline.sh /repo', source_commits=[], add_only=True),
    engines=[
        dict(name='symT (Engine A)', path='symt/', serves_properties=sorted(p for p, s in props.PROPS.items() if 'A' in s.get('engine', 'A')),
             kind_free_text='symbolic execution of the real C++ templates with a scalar type that builds z3 real terms; branch outcomes and obligations decided by z3 (QF_NRA); exact-rational concrete replay'),
        dict(name='irsym (Engine B)', path='irsym/', serves_properties=sorted(p for p, s in props.PROPS.items() if 'B' in s.get('engine', 'A')),
             kind_free_text='path-based symbolic executor for the LLVM IR clang emits for extern "C" wrappers around the real classes; 64-bit bit-vector / byte-array memory model in z3; native ctypes replay'),
    ],
    checks=checks,
    not_applicable=[dict(property_id=k, reason=v) for k, v in sorted(props.NOT_APPLICABLE.items())],
    notes='Bounded solver-based checking; every verdict is "holds for all values within the stated bounds" (bounds per property in evidence/<id>.json and DESIGN.md). Exit 2 = inconclusive, never reported as success.')
jsonschema.validate(man, json.load(open('/root/.vp/MANIFEST.schema.json')))
json.dump(man, open(os.path.join(ROOT, 'MANIFEST.json'), 'w'), indent=1)
print('MANIFEST.json: %d checks, %d not applicable' % (len(checks), len(man['not_applicable'])))
