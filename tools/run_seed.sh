#!/bin/bash
# Runs checks against one seeded change in its own scratch worktree (never touches /repo):
# usage: tools/run_seed.sh <seed dir> <property> [<property> ...]    -> one line per property: <seed> <property> <exit code> <first violation key>
D=$(realpath "$1"); ID=$(basename "$D"); shift
WT=/tmp/seedrun_$ID
git -C /repo worktree remove --force $WT >/dev/null 2>&1; rm -rf $WT
git -C /repo worktree add -q --detach $WT HEAD && git -C $WT apply "$D/patch.diff" || { echo "$ID setup-failed"; exit 2; }
for P in "$@"; do
  out=$(cd /verif && VERIF_REPO=$WT VERIF_JOBS=${VERIF_JOBS:-16} ./check $P --tier ${TIER:-quick} 2>&1); rc=$?
  first=$(echo "$out" | grep -A1 "^VIOLATION" | sed -n 2p | cut -c1-200)
  echo "$ID $P rc=$rc $first"
done
git -C /repo worktree remove --force $WT >/dev/null 2>&1; rm -rf $WT
