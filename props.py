"""Per-property check specifications (what is compiled, with which bounds, for which tier)."""

A_TRUST = ['g++ 12 template instantiation (same source for double and sym::Real)', 'libz3 4.8.12 QF_NRA (nlsat), fresh solver per query',
           'symt/sym.h + symt/harness.h (~700 lines)', 'the oracle written in the harness source']

PROPS = {}

PROPS['C02'] = dict(
    engine='A', technique='symbolic-scalar execution of the real templates (T = z3 real terms) + QF_NRA obligations, exact-rational replay',
    harnesses=[dict(name='C02_eval_large', src='C02_eval.cpp', defs=dict(quick=['-DFIXED_GRID', '-DLARGE=17', '-DLARGE_HIST=4'], thorough=['-DFIXED_GRID', '-DLARGE=20', '-DLARGE_ALL', '-DLARGE_HIST=10']),
                    functions=['Spline::operator() on every window of a 17-point (thorough: 20-point) fixed rational grid at order 1 (thorough: 0, 1, 3), 30 sampled windows at order 3; objects with a history on sampled window pairs'], chunk=4),
               dict(name='C02_eval_high', src='C02_eval.cpp', defs=dict(quick=['-DFIXED_GRID', '-DMAXN=4'], thorough=['-DFIXED_GRID', '-DMAXN=6']),
                    functions=['Spline::operator() for orders 6, 8, 10, 20 on a fixed rational grid (x and coefficients symbolic)']),
               dict(name='C02_eval', src='C02_eval.cpp',
                    defs=dict(quick=['-DMAXN=5', '-DMAXO=3', '-DHISTN=3'], thorough=['-DMAXN=6', '-DMAXO=5', '-DHISTN=4']),
                    functions=['Spline::operator()', 'Spline::findInterval', 'Spline::front', 'Spline::back', 'Support::begin', 'Support::end', 'Support::front',
                               'Support::back', 'Support::size', 'Support::operator[]', 'Grid::operator[]', 'internal::evaluateInterval', 'std::lower_bound (libstdc++)'])],
    bounds=dict(quick='grids of 2..5 symbolic points, every window (empty, point-like, all s<e<=n), orders 0..3, symbolic coefficients and abscissa; plus evaluation of objects with a history (earlier evaluation at an independent symbolic x1, then copy/move/lower-order assignment, += or move-out-and-reassign from every other window) on grids of 2..3 points; plus orders 6, 8, 10, 20 on FIXED irregular rational grids of 2..4 points (x and coefficients symbolic); plus EVERY window of a 17-point FIXED rational grid at order 1 (16 sampled windows at order 3), objects with a history on sampled window pairs of that grid, and orders 7, 9, 11, 12, 13, 16 on 2..4-point fixed grids',
                thorough='grids of 2..6 symbolic points, every window, orders 0..5'),
    outside='orders/grids above the bound; NaN abscissa; floating-point rounding (C16)',
    assumptions=['grid points strictly increasing reals', 'exact real arithmetic (sym::Real), not IEEE'],
    trusted=A_TRUST,
    level_text='Bounded symbolic model checking of the real evaluation code: for every window/order/grid size inside the bound, all real-valued grids, coefficients and abscissae are covered by solver-decided paths; the claim is an SMT obligation per path. Right level because the property quantifies over a continuum of inputs with rare special points (x on a grid point, x at either end).',
    level_note='Exact real arithmetic stands in for the scalar type (not IEEE); structure (window, order, grid size) enumerated up to the bound; trusted: g++, libz3, sym.h/harness.h, the oracle in C02_eval.cpp.')

PROPS['C03'] = dict(
    engine='A', technique='symbolic-scalar execution of the real templates (T = z3 real terms) + QF_NRA obligations, exact-rational replay',
    harnesses=[dict(name='C03_intscalar', src='C03_intscalar.cpp', defs=dict(quick=['-DSYMT_IMPLICIT_INT', '-DMAXN=3'], thorough=['-DSYMT_IMPLICIT_INT', '-DMAXN=4']),
                    functions=['Spline::operator/(T), operator*(T), operator*=, operator/= called with integer-typed arguments (int, long, unsigned, unsigned short, size_t)']),
               dict(name='C03_arith_large', src='C03_arith.cpp', chunk=1,
                    defs=dict(quick=['-DFIXED_GRID', '-DLARGE=17'], thorough=['-DFIXED_GRID', '-DLARGE=20', '-DNSAMPLE=16', '-DLCMANY=16']),
                    functions=['Spline arithmetic on sampled window pairs of a 17-point (thorough: 20-point) fixed rational grid; scalar and aliasing forms on every window; linearCombination of 4..9 (16) splines']),
               dict(name='C03_arith_high', src='C03_arith.cpp', defs=dict(quick=['-DFIXED_GRID', '-DMAXN=3'], thorough=['-DFIXED_GRID', '-DMAXN=4']),
                    functions=['Spline arithmetic for order pairs in {4,6,9,10}^2, scalar operations on orders 8 and 10, linearCombination on order 7 (fixed rational grid)']),
               dict(name='C03_arith', src='C03_arith.cpp',
                    defs=dict(quick=['-DMAXN=5', '-DMAXO=2', '-DLCN=4'], thorough=['-DMAXN=6', '-DMAXO=3', '-DLCN=5']),
                    functions=['Spline::operator+', 'Spline::operator-', 'Spline::operator*(Spline)', 'Spline::operator*(T)', 'Spline::operator/(T)', 'Spline::operator-()',
                               'Spline::operator+=', 'Spline::operator-=', 'Spline::operator*=', 'Spline::operator/=', 'Spline::operator=(lower order)', 'operator*(T,Spline)',
                               'linearCombination (iterator and collection overloads)', 'internal::add', 'internal::changearraysize', 'internal::make_array',
                               'Support::calcUnion', 'Support::calcIntersection', 'Support::intervalIndexFromAbsolute', 'Support::absoluteFromRelative', 'Spline::Spline (validation)'])],
    bounds=dict(quick='grids of 2..5 symbolic points; every ordered pair of windows (empty, point-like, nested, overlapping, touching, gap); order pairs {0,1,2}^2; in-place forms from an arbitrary prior state and sequences of up to 4 updates; the same object on both sides (t -= t, t += t, a*a, ...); integer-typed scalar arguments with an implicitly converting scalar type; linearCombination of 2 and 3 splines (all window triples on grids <=4, third spline at every position), symbolic scalars; plus order pairs {4,6,9,10}^2 on FIXED irregular rational grids of 2..3 points (coefficients, scalars, x symbolic); plus sampled window pairs (8x8 per order pair (1,1), (2,1), (0,2)) of a 17-point FIXED rational grid, scalar and aliasing forms on every window of it, linearCombination of 4..9 splines (with a repeated member)',
                thorough='grids of 2..6 points, order pairs {0..3}^2, linearCombination on grids <=5'),
    outside='orders/grids above the bound; collections of more than 3 splines; floating-point rounding (C16)',
    assumptions=['grid points strictly increasing reals', 'scalar divisor non-zero', 'exact real arithmetic (sym::Real), not IEEE'],
    trusted=A_TRUST,
    level_text='Bounded symbolic model checking of the real arithmetic operators: every placement of two (three) supports on grids up to the bound, with all coefficients, grid points and scalars symbolic; result compared on every grid interval with the pointwise operation on the operand pieces at a symbolic x. In-place operators are checked as one step from an arbitrary pre-state, which covers update histories of any length.',
    level_note='Exact real arithmetic; orders, windows and grid size enumerated to the bound; trusted: g++, libz3, sym.h/harness.h, oracle (piece_at power sums) in C03_arith.cpp.')

PROPS['C04'] = dict(
    engine='A', technique='symbolic-scalar execution of the real templates (T = z3 real terms) + QF_NRA obligations, exact-rational replay',
    harnesses=[dict(name='C04_primops_large', src='C04_primops.cpp', chunk=2,
                    defs=dict(quick=['-DFIXED_GRID', '-DLARGE=17'], thorough=['-DFIXED_GRID', '-DLARGE=20', '-DLARGE_ALL']),
                    functions=['Derivative<n>/Position<n>/Identity transforms on every window of a 17-point (thorough: 20-point) fixed rational grid for (n, order) in {(1,1),(2,3),(3,2),(1,0)} (thorough: 8 pairs)']),
               dict(name='C04_primops_high', src='C04_primops.cpp',
                    defs=dict(quick=['-DHIGH_ORDERS', '-DMAXN=2', '-DMAXO=0', '-DMAXD=0'], thorough=['-DHIGH_ORDERS', '-DMAXN=2', '-DMAXO=0', '-DMAXD=0']),
                    functions=['Derivative<n>::transform and Position<n>::transform for n, order in {0,1,3,5,8,13,20,21,22,25}^2 and for every n = 0..4, order = 4..12']),
               dict(name='C04_primops', src='C04_primops.cpp',
                    defs=dict(quick=['-DMAXN=4', '-DMAXO=4', '-DMAXD=6'], thorough=['-DMAXN=5', '-DMAXO=5', '-DMAXD=6']),
                    functions=['Derivative<n>::transform', 'Position<n>::transform', 'Position<n>::expandPower', 'IdentityOperator::transform', 'operators::transformSpline',
                               'operator*(Operator,Spline)', 'internal::faculty', 'internal::facultyRatio', 'internal::binomialCoefficient', 'Spline::operator=='])],
    bounds=dict(quick='n = 0..6 for Dx<n>/X<n>, spline orders 0..4 (35 template pairs incl. n = order and n > order), every window of grids with 2..4 symbolic points (arbitrary spacing and distance from the origin); the same operator objects applied alternately on two independent symbolic grids (n <= 3, order <= 2); plus 100 sparse high pairs (n, order) in {0,1,3,5,8,13,20,21,22,25}^2 on the fixed rational interval [-3/2, 5/7] with symbolic coefficients and x (where factorials/binomials exceed 64-bit integers); plus every window of a 17-point FIXED rational grid for (n, order) in {(1,1),(2,3),(3,2),(1,0)}, every n = 0..4 with order = 4..12 on a fixed interval, and one spline object re-assigned between two grids',
                thorough='n = 0..6, orders 0..5, grids of 2..5 points'),
    outside='n and orders above the bound; floating-point rounding (C16)',
    assumptions=['grid points strictly increasing reals', 'exact real arithmetic (sym::Real), not IEEE'],
    trusted=A_TRUST,
    level_text='Bounded symbolic model checking: for each (n, order) template pair and window the real transform is run on symbolic coefficients/grid and compared at a symbolic x with the n-th derivative / x^n multiple of the operand piece taken in the origin monomial basis by the harness.',
    level_note='Exact real arithmetic; (n, order) pairs and windows enumerated to the bound; trusted: g++, libz3, sym.h/harness.h, origin-basis oracle in harness.h/C04_primops.cpp.')

PROPS['C05'] = dict(
    engine='A', technique='symbolic-scalar execution of the real operator templates over an enumerated set of expression trees + QF_NRA obligations against a reference interpreter, exact-rational replay',
    generated=[dict(mode='c05', ntu=16, template=dict(
        defs=dict(quick=['-DMAXN=4', '-DMAXO=2', '-DFO=1'], thorough=['-DMAXN=5', '-DMAXO=3', '-DFO=1', '-DFO2=2']),
        functions=['OperatorProduct::transform', 'OperatorSum::transform/add', 'ScalarMultiplication::transform', 'operator*(O1,O2)', 'operator+(O1,O2)', 'operator-(O1,O2)',
                   'operator*(S,O)', 'operator*(O,S)', 'operator/(O,S)', 'operator+(O,S)', 'operator+(S,O)', 'operator-(O,S)', 'operator-(S,O)', 'operator-(O)',
                   'SplineOperator::transform', 'Derivative::transform', 'Position::transform', 'IdentityOperator::transform', 'transformSpline'])),
               dict(mode='c05lg', ntu=4, template=dict(chunk=1,
        defs=dict(quick=['-DFIXED_GRID', '-DLARGE=17', '-DFO=1'], thorough=['-DFIXED_GRID', '-DLARGE=20', '-DFO=1']),
        functions=['the 10 named expressions and the 27 one-level trees with a spline factor on sampled operand/factor windows of a 17-point (thorough: 20-point) fixed rational grid, operand orders 1 and 2']))],
    bounds=dict(quick='expression trees: 10 named (commutator, hydrogen-like, generator, ...) + all 198 trees with one composite node over the leaves {I, X<1>, X<2>, Dx<1>, Dx<2>, SplineOperator(v)} with scalars of type T (symbolic) and int (literals, incl. int divisors) + 84 one-level trees with scalars of type unsigned, size_t, long, short + all 315 nestings of two builder functions (unary over unary, binary over a unary child on either side) + 160 seed-selected further trees with two composite nodes + 48 seed-selected trees with builders nested three and four deep; operand orders 0..2; factor order 1; every operand window x every factor window on grids of 2..4 symbolic points; every operator is built from named scalar/spline objects that are overwritten before the operator is applied; plus the named expressions and all one-level trees with a spline factor on sampled windows of a 17-point FIXED rational grid',
                thorough='all 2808 two-level trees of the generator, operand orders 0..3, factor orders 1 and 2, grids of 2..5 points'),
    outside='trees deeper than two composite nodes other than the sampled 48 (240) with three/four levels; X<n>/Dx<n> with n>2 inside expressions (covered alone by C04); lvalue operator operands (do not compile); scalar types other than T, int, unsigned, size_t, long, short',
    assumptions=['grid points strictly increasing reals', 'T-typed divisor non-zero', 'exact real arithmetic (sym::Real), not IEEE'],
    trusted=A_TRUST + ['symt/gen/gen_exprs.py (tree enumeration and reference interpreter)'],
    level_text='Bounded symbolic model checking over programs: each enumerated expression tree is a distinct template instantiation of the real operator classes; it is applied to a spline with symbolic coefficients on a symbolic grid and compared on every interval at a symbolic x with a 40-line reference interpreter working on origin-basis polynomials.',
    level_note='Exact real arithmetic; trees, orders and windows enumerated to the bound (quick: seeded subset of the two-level trees); trusted: g++, libz3, sym.h/harness.h, gen_exprs.py reference interpreter.')

_FORM_FUNCS = ['BilinearForm::evaluate', 'BilinearForm::operator()', 'BilinearForm::evaluateInterval', 'BilinearForm deduction guides', 'ScalarProduct', 'LinearForm::evaluate',
               'LinearForm::operator()', 'LinearForm::evaluateInterval', 'Support::calcIntersection', 'Support::intervalIndexFromAbsolute', 'Support::absoluteFromRelative',
               'Support::operator[]', 'operator transforms (Identity, Dx<n>, X<n>, SplineOperator, sums, products, scalar multiples)']
PROPS['C06'] = dict(
    engine='A', technique='symbolic-scalar execution of the real form templates + QF_NRA obligations against antiderivative-at-both-ends integrals, exact-rational replay',
    generated=[dict(mode='c06', ntu=14, template=dict(
        defs=dict(quick=['-DMAXN=4', '-DMAXO=3', '-DFO=1'], thorough=['-DMAXN=5', '-DMAXO=4', '-DFO=1', '-DALL_FACTOR_WINDOWS']),
        functions=_FORM_FUNCS)),
               dict(mode='c06hi', ntu=4, template=dict(
        defs=dict(quick=['-DFIXED_GRID', '-DMAXN=3', '-DFO=1'], thorough=['-DFIXED_GRID', '-DMAXN=4', '-DFO=1']),
        functions=['BilinearForm::evaluateInterval for order pairs in {5,6,7,8,10}^2 (fixed rational grid)'])),
               dict(mode='c06lg', ntu=4, template=dict(
        defs=dict(quick=['-DFIXED_GRID', '-DLARGE=17', '-DFO=1'], thorough=['-DFIXED_GRID', '-DLARGE=20', '-DNSAMPLE=14', '-DFO=1']), chunk=1,
        functions=['BilinearForm on sampled window pairs of a 17-point (thorough: 20-point) fixed rational grid, order pairs (1,1), (2,1), (0,3)']))],
    bounds=dict(quick='14 operator pairs over {I, Dx<1>, Dx<2>, X<1>, X<2>, SplineOperator(v), X<2>Dx<1>+c X<1>-3, -Dx<2>/2, v*Dx<1>, c-X<1>} (position-dependent operators in both slots); order pairs {0..3}^2 (all four size parities of the kernel); every ordered window pair on grids of 2..4 symbolic points; factor windows {whole, empty, [0,2), [1,n)}; operands with a history (a queried zero object re-assigned by lower-order assignment / += / copy and *=); plus order pairs {5,6,7,8,10}^2 for 4 operator pairs on FIXED irregular rational grids of 2..3 points (coefficients symbolic) - the kernel sizes the examples use; plus sampled window pairs of a 17-point FIXED rational grid (6 operator pairs incl. SplineOperator in either slot, order pairs (1,1), (2,1), (0,3)), kernels with 22..35 product coefficients (order pairs (11,11), (12,12), (13,11), (9,16), (16,16)), and the same spline object in both slots with operators of one type that differ in state',
                thorough='68 operator pairs, order pairs {0..4}^2, grids of 2..5 points, every factor window; high-order part: 10 operator pairs, grids of 2..4 points'),
    outside='operator pairs and orders beyond the bound; floating-point rounding (C16)',
    assumptions=['grid points strictly increasing reals', 'T-typed divisor non-zero', 'exact real arithmetic (sym::Real), not IEEE'],
    trusted=A_TRUST + ['symt/gen/gen_exprs.py (reference interpreter)'],
    level_text='Bounded symbolic model checking: the real BilinearForm is evaluated on splines with symbolic coefficients on a symbolic grid for every placement of the two supports; the result must equal the sum over common intervals of the integral of the product of the two transformed pieces, integrated by the harness via the antiderivative at both interval ends (no even/odd shortcut). Swap symmetry and linearity are separate obligations on the real code.',
    level_note='Exact real arithmetic; operator pairs, orders and windows enumerated to the bound; trusted: g++, libz3, sym.h/harness.h, reference interpreter.')
PROPS['C07'] = dict(
    engine='A', technique='symbolic-scalar execution of the real form templates + QF_NRA obligations against antiderivative-at-both-ends integrals, exact-rational replay',
    generated=[dict(mode='c07', ntu=16, template=dict(
        defs=dict(quick=['-DMAXN=4', '-DMAXO=3', '-DFO=1'], thorough=['-DMAXN=5', '-DMAXO=4', '-DFO=1']),
        functions=_FORM_FUNCS + ['Spline::operator*(Spline)', 'operator*(Operator,Spline)'])),
               dict(mode='c07hi', ntu=4, template=dict(
        defs=dict(quick=['-DFIXED_GRID', '-DMAXN=3', '-DFO=1'], thorough=['-DFIXED_GRID', '-DMAXN=3', '-DFO=1']),
        functions=['LinearForm::evaluateInterval for orders 5..11 (fixed rational grid)'])),
               dict(mode='c07lg', ntu=4, template=dict(
        defs=dict(quick=['-DFIXED_GRID', '-DLARGE=17', '-DFO=1'], thorough=['-DFIXED_GRID', '-DLARGE=20', '-DNSAMPLE=14', '-DFO=1']), chunk=1,
        functions=['LinearForm on every window of a 17-point (thorough: 20-point) fixed rational grid, orders 1 and 2; link to the bilinear form on sampled window pairs']))],
    bounds=dict(quick='linear forms of 10 operators on splines of order 0..4 (both parities of the kernel), every window and every factor window on grids of 2..4 symbolic points; bilinear = LinearForm{}((O1 a)*(O2 b)) for 14 operator pairs, order pairs {0..3}^2, every ordered window pair; plus orders 5..11 (linear forms) and order pairs (6,5), (7,8) (link) on a FIXED irregular rational 3-point grid with symbolic coefficients; plus every window of a 17-point FIXED rational grid (7 operators, orders 1, 2), the link on sampled window pairs of it and for order pairs (12,12), (13,11), and the same spline object in both slots',
                thorough='orders 0..5, 68 operator pairs, grids of 2..5 points'),
    outside='operators and orders beyond the bound; floating-point rounding (C16)',
    assumptions=['grid points strictly increasing reals', 'T-typed divisor non-zero', 'exact real arithmetic (sym::Real), not IEEE'],
    trusted=A_TRUST + ['symt/gen/gen_exprs.py (reference interpreter)'],
    level_text='Bounded symbolic model checking: the real LinearForm on symbolic splines must equal the sum over the support of the integral of the transformed piece (antiderivative at both ends, origin basis); the link to the bilinear form is checked between two real code paths (BilinearForm vs LinearForm of the library product).',
    level_note='Exact real arithmetic; operators, orders and windows enumerated to the bound; trusted: g++, libz3, sym.h/harness.h, reference interpreter.')

PROPS['C01'] = dict(
    engine='A', technique='symbolic-scalar execution of the real generator (T = z3 real terms, all knots symbolic) + QF_NRA obligations against the Cox-de Boor recursion at a symbolic x, exact-rational replay',
    harnesses=[dict(name='C01_generator_sparse', src='C01_generator.cpp', chunk=1,
                    defs=dict(quick=['-DFIXED_KNOTS', '-DSPARSE', '-DSPARSE_MORE'], thorough=['-DFIXED_KNOTS', '-DSPARSE', '-DSPARSE_MORE']),
                    functions=['generateBSplines<p> for p in {1,3} with up to 18 knots and p in {8,11,12,13} (thorough: also 2,5,9,14,15,16) on fixed knot values: simple knots, one interior double knot, clamped ends']),
               dict(name='C01_generator_fixed_knots', src='C01_generator.cpp',
                    defs=dict(quick=['-DFIXED_KNOTS', '-DMINP=6', '-DMAXP=7', '-DEXTRA=2'], thorough=['-DFIXED_KNOTS', '-DMINP=6', '-DMAXP=10', '-DEXTRA=3']),
                    functions=['generateBSplines<p> for p = 6..10 on fixed irregular rational knot values (every multiplicity pattern), x symbolic']),
               dict(name='C01_generator', src='C01_generator.cpp', chunk=1,
                    defs=dict(quick=['-DMAXP=4', '-DEXTRA=4'], thorough=['-DMAXP=5', '-DEXTRA=4', '-DSMOOTHNESS']),
                    functions=['BSplineGenerator(knots)', 'BSplineGenerator(knots, grid)', 'BSplineGenerator::generateGrid', 'BSplineGenerator::generateBSplines<p>',
                               'BSplineGenerator::generateZerothOrderSplines', 'BSplineGenerator::applyRecursionRelation<k>', 'generateBSplines<p>(knots)', 'Grid::Grid', 'Grid::findElement',
                               'Position<1>::transform', 'ScalarMultiplication::transform', 'OperatorSum::transform', 'Spline::operator+=', 'Spline::operator=(lower order)', 'Spline::operator=='])],
    bounds=dict(quick='orders p = 0..4; knot vectors of m = 2..p+4 knots; EVERY multiplicity pattern (all compositions of m with >= 2 parts: simple, interior and boundary repeats up to and beyond p+1); all knot values symbolic (any positive spacings, any offset); both construction routes and the free function; m < p+1 must throw, m = p+1 gives zero functions; plus orders 6..7 with m = p..p+2 knots, every multiplicity pattern, distinct knot values FIXED irregular rationals (x symbolic) - symbolic knots at these orders are beyond nlsat; plus (sparse) orders 1, 2, 3, 5 with up to 18-20 knots and orders 8, 9, 11..16 on FIXED knot values (simple knots, one interior double knot, clamped ends)',
                thorough='orders p = 0..5, m <= p+4 (up to 9 knots, 255 patterns), plus explicit C^{p-mu} derivative-continuity obligations at every interior knot; fixed-knot part: orders 6..10 (the examples use 10), m = p..p+3, all 14860 patterns'),
    outside='symbolic knot values for p >= 6; p > 10; knot vectors longer than p+4 (p+3 for p >= 6); floating-point rounding (C16)',
    assumptions=['knots non-decreasing with at least two distinct values (distinct values strictly increasing reals)', 'exact real arithmetic (sym::Real), not IEEE'],
    trusted=A_TRUST,
    level_text='Bounded symbolic model checking of the real generator: for each order and knot count inside the bound every multiplicity pattern is a case whose distinct knot values are free reals; each returned function is compared on every grid interval, at a symbolic x, with the Cox-de Boor recursion written directly over the knots; count, local support, partition of unity, both construction routes are separate obligations.',
    level_note='Exact real arithmetic; order, knot count and multiplicity pattern enumerated exhaustively to the bound, values symbolic; trusted: g++, libz3, sym.h/harness.h, the recursion oracle in C01_generator.cpp.')

PROPS['C15'] = dict(
    engine='A', technique='symbolic-scalar execution of the real predicates (branches on coefficient/grid comparisons forked by the solver) + QF_NRA obligations, exact-rational replay',
    harnesses=[dict(name='C15_predicates', src='C15_predicates.cpp',
                    defs=dict(quick=['-DMAXN=4', '-DMAXO=2', '-DLARGEN=17'], thorough=['-DMAXN=5', '-DMAXO=3', '-DLARGEN=24']),
                    functions=['Spline::isZero', 'Spline::checkOverlap', 'Spline::operator==', 'Spline::operator!=', 'Support::operator==', 'Support::hasSameGrid',
                               'Support::containsIntervals', 'Support::front', 'Support::back', 'Grid::operator== (pointer and element-wise paths)', 'std::vector<std::array<T,N>>::operator=='])],
    bounds=dict(quick='orders 0..2; every window (isZero) and every ordered window pair (==, checkOverlap) on grids of 2..4 (overlap: 2..5) symbolic points; grids shared, equal-but-distinct, and independent symbolic second grid (sizes 2..3); which coefficients vanish/agree is decided by solver forking; plus grids of 8..17 symbolic points: equality of splines on two independent symbolic grids (every position of the first differing point / coefficient), on equal-but-distinct grids, of empty windows; isZero on long coefficient vectors; checkOverlap on a 9-point grid',
                thorough='orders 0..3, grids of 2..5 (6) points'),
    outside='NaN coefficients (reflexivity of == is stated over reals); orders/grids above the bound',
    assumptions=['grid points strictly increasing reals', 'coefficients real (no NaN)'],
    trusted=A_TRUST,
    level_text='Bounded symbolic model checking: each predicate is run on symbolic coefficients; every feasible outcome path (first non-zero coefficient at any position, first differing coefficient or grid point at any position) is followed and the returned truth value is proved equivalent to the specification under the path condition.',
    level_note='Exact reals; windows, orders, grid size enumerated to the bound; trusted: g++, libz3, sym.h/harness.h, oracle in C15_predicates.cpp.')

PROPS['C08'] = dict(
    engine='A', technique='symbolic-scalar execution of every multi-spline entry point on two grids with independent symbolic points (Grid::operator== forks decided by the solver) + QF_NRA obligations, exact-rational replay',
    harnesses=[dict(name='C08_grids', src='C08_grids.cpp', pre_includes=['symt/stub'],
                    defs=dict(quick=['-DMAXN=4', '-DLARGE_GRIDS'], thorough=['-DMAXN=5', '-DMORE_ORDERS', '-DLARGE_GRIDS']),
                    functions=['Grid::operator==', 'Grid::operator!=', 'Support::hasSameGrid', 'Support::calcUnion', 'Support::calcIntersection', 'Spline::operator+', 'Spline::operator-',
                               'Spline::operator*(Spline)', 'Spline::operator+=', 'Spline::operator-=', 'linearCombination', 'BilinearForm::evaluate', 'ScalarProduct', 'integration::integrate<n>',
                               'SplineOperator::transform', 'operator*(Operator,Spline)', 'LinearForm::evaluate', 'BSplineGenerator(knots, grid)'])],
    bounds=dict(quick='two grids of 2..4 points each, sizes independent, all points symbolic (every way of differing - one point moved anywhere, extra point at either end or inside, prefix/suffix, agreement on the region where the supports meet - is a model of a "different" path); 14 entry points; operand windows {empty, point-like, whole, left part, right part, interior interval}^2; order pairs (1,1), (2,0); linearCombination with the foreign spline at each of 3 positions; plus two independent symbolic grids of 8..17 points each (equal sizes: the first differing point anywhere; unequal sizes 8/10, 9/12, 16/17 with windows beyond the shorter grid) for a slim set of 7 entry points (refusal <=> grids differ, error code)',
                thorough='grids of 2..5 points, order pairs (1,1), (2,0), (0,0), (2,2), (1,2)'),
    outside='grids larger than the bound; for a bilinear form with a spline factor the refusal is demanded only when the integration domain has at least one interval (statement ambiguous otherwise)',
    stubs=['symt/stub/boost/math/quadrature/gauss.hpp: exact 1-point Gauss-Legendre rule (node 0, weight 2) in place of boost tables'],
    assumptions=['each grid strictly increasing reals', 'exact real arithmetic'],
    trusted=A_TRUST,
    level_text='Bounded symbolic model checking: both grids are symbolic, so one symbolic case covers all concrete pairs of grids of those sizes; the real equality test forks element by element; on every path each entry point must throw the differing-grids exception exactly when the path condition implies the grids differ, leave operands unchanged, and on equal-grid paths return the shared-instance result.',
    level_note='Exact reals; grid sizes, windows, orders, entry points enumerated to the bound; trusted: g++, libz3, sym.h/harness.h, oracle in C08_grids.cpp, Gauss stub.')

PROPS['C12'] = dict(
    engine='A', technique='symbolic-scalar execution of the real generic interpolate<T,order,Solver> with a nondeterministic linear-solver stub (arbitrary solution of M x = b) + QF_NRA obligations, exact-rational replay',
    harnesses=[dict(name='C12_interp_large', src='C12_interp.cpp', chunk=1,
                    defs=dict(quick=['-DFIXED_GRID', '-DLARGE_MORE'], thorough=['-DFIXED_GRID', '-DLARGE_MORE']),
                    functions=['interpolate<T,order,Solver> on fixed rational abscissae: 7..17 nodes for orders 1..4 (as whole grid and as windows starting at index 2 and 5), orders 5, 6, 8 (thorough: 7, 10, 12) with 2..5 nodes; default and two explicit boundary sequences']),
               dict(name='C12_interp', src='C12_interp.cpp',
                    defs=dict(quick=['-DMAXO=4', '-DMAXNODES=4', '-DFULLSEQ_MAXO=3'], thorough=['-DMAXO=5', '-DMAXNODES=5', '-DFULLSEQ_MAXO=4']),
                    functions=['interpolation::interpolate<T,order,Solver>', 'interpolation::internal::defaultBoundaries', 'internal::facultyRatio', 'Support::operator[]', 'Support::size',
                               'Support::back', 'Spline::Spline', 'Spline::operator()', 'Spline::findInterval'])],
    bounds=dict(quick='orders 1..4; 2..4 abscissae, as the whole grid and as a window of a larger grid (padding 1+1 and 2+0); default boundaries and, for orders <=3, EVERY ordered sequence of order-1 (node, derivative 1..order) conditions with symbolic values (order 4: every multiset); abscissae, ordinates, boundary values and the solver output symbolic; plus FIXED rational abscissae: 7..17 nodes for orders 1..4 (whole grid and windows starting at index 2 and 5), orders 5..8, 10, 12 with 2..5 nodes, default and two explicit boundary sequences each',
                thorough='orders 1..5, 2..5 abscissae, every ordered sequence up to order 4'),
    outside='the bundled Eigen/Armadillo adapters and their backward error (floating point, dense QR) - second sentence of the statement; orders/node counts above the bound',
    stubs=['StubSolver (in C12_interp.cpp): M(i,j)/b(i) store terms; solve() returns fresh variables constrained only by M x = b (contract of an exact solver)'],
    assumptions=['abscissae strictly increasing reals', 'the solver returns a solution of the assembled system', 'exact real arithmetic'],
    trusted=A_TRUST,
    level_text='Bounded symbolic model checking of the exact clause: the real assembly code runs on symbolic data; whatever solution of its system the solver returns, the real operator() of the returned spline must give the ordinate at every node, adjacent pieces must agree in derivatives 1..order-1 at interior nodes, and every boundary condition must hold. Contradictory systems (path condition unsat) are recorded as outside the claim, not as passes.',
    level_note='Exact reals; orders, node counts, paddings and boundary sequences enumerated to the bound; the Eigen/Armadillo solvers are not part of the claim; trusted: g++, libz3, sym.h/harness.h, oracle + StubSolver in C12_interp.cpp.')

PROPS['C17'] = dict(
    engine='A', technique='symbolic-scalar execution of the real integrate<n> over an exact Gauss-Legendre stub (algebraic nodes as constrained symbols) + QF_NRA obligations; replay in an exact tower of quadratic extensions of Q; rules with more than 5 points through an interpolation model of the exactness contract',
    harnesses=[dict(name='C17_quadrature_large', src='C17_quadrature.cpp', pre_includes=['symt/stub'], chunk=1,
                    defs=dict(quick=['-DFIXED_GRID', '-DLARGE=17'], thorough=['-DFIXED_GRID', '-DLARGE=20', '-DNSAMPLE=12']),
                    functions=['integrate<n> on sampled window pairs of a 17-point (thorough: 20-point) fixed rational grid for (n,o1,o2,d) in {(2,1,1,1),(3,2,1,2),(2,0,3,0)}; (4,3,3,1), (4,5,2,0), (5,4,4,1), (5,6,3,0), (5,2,5,2) on 2..3-point grids; rules with 6, 8, 11, 13 points (interpolation model of the exactness contract): (6,5,5,1), (8,7,7,1), (11,10,11,0), (11,12,9,0), (13,12,12,1)']),
               dict(name='C17_quadrature', src='C17_quadrature.cpp', pre_includes=['symt/stub'],
                    defs=dict(quick=['-DMAXQ=4', '-DMAXO=2', '-DMAXN=4'], thorough=['-DMAXQ=5', '-DMAXO=3', '-DMAXN=4']),
                    functions=['integration::integrate<n>', 'Support::calcIntersection', 'Support::intervalIndexFromAbsolute', 'Support::absoluteFromRelative', 'Support::at', 'Grid::at',
                               'internal::evaluateInterval', 'BilinearForm::evaluate (weight as X-polynomial operator)'])],
    bounds=dict(quick='quadrature sizes n = 1..4, spline orders {0..2}^2, polynomial weights of degree 0..2 with symbolic coefficients, every (n, o1, o2, d) with 2n-1 >= o1+o2+d; every ordered window pair on grids of 2..4 symbolic points; plus sampled window pairs of a 17-point FIXED rational grid for (n,o1,o2,d) in {(2,1,1,1),(3,2,1,2),(2,0,3,0)} and (4,3,3,1), (4,5,2,0), (5,4,4,1), (5,6,3,0), (5,2,5,2), and with 6..13-point rules (6,5,5,1), (8,7,7,1), (11,10,11,0), (11,12,9,0), (13,12,12,1) on 2..3-point grids',
                thorough='n = 1..5, orders {0..3}^2'),
    outside='boost\'s rounded double node/weight tables and floating-point rounding ("up to rounding" is read as exact equality in exact arithmetic); n > 5; non-polynomial weights; sizes beyond the exactness bound (no claim is made there)',
    stubs=['symt/stub/boost/math/quadrature/gauss.hpp + symt/gauss_nodes.h: exact n-point Gauss-Legendre rule, nodes/weights as algebraic numbers (n=2: s^2=1/3; n=3: s^2=3/5; n=4,5: nested radicals), contract = exactness to degree 2n-1', 'for n > 5 the stub integrates the degree-(2n-1) interpolant through 2n rational points: equal to the Gauss rule for every integrand inside the exactness contract'],
    assumptions=['grid points strictly increasing reals', 'gauss<T,N>::integrate implements the exact N-point Gauss-Legendre rule', 'exact real arithmetic'],
    trusted=A_TRUST + ['the Gauss-Legendre node/weight formulas in symt/gauss_nodes.h'],
    level_text='Bounded symbolic model checking (exact-arithmetic reading): the real integrate<n> is run on symbolic splines with the library\'s integrand lambda evaluated at the exact Gauss nodes; the result must equal both the harness\'s exact integral of f*m1*m2 over the common intervals and the real BilinearForm with f as an operator, whenever 2n-1 >= order1+order2+d.',
    level_note='Exact reals with algebraic nodes; quadrature size, orders, weight degree and windows enumerated to the bound; boost tables/rounding not covered; trusted: g++, libz3, sym.h/harness.h, gauss stub, oracle in C17_quadrature.cpp.')

PROPS['C11'] = dict(
    engine='A+B', irsym=[dict(module='c13', checks=[4, 6], params=dict(quick=dict(nmax_data=3), thorough=dict(nmax_data=3)))], technique='symbolic execution of the real validating entry points with IEEE-comparison scalars (z3 Float64: NaN/+-0/+-inf are solver variables) and real scalars; accept/refuse outcome proved equivalent to the documented predicate on every path',
    harnesses=[dict(name='C11_validation', src='C11_validation.cpp', chunk=1,
                    defs=dict(quick=['-DMAXK=5', '-DMAXN=4', '-DLARGEK=17', '-DLCCOUNT=9'], thorough=['-DMAXK=6', '-DMAXN=5', '-DLARGEK=20', '-DLCCOUNT=12']),
                    functions=['Grid::Grid (vector, iterator, initializer_list, shared_ptr)', 'Grid::checkValidity', 'Grid::isSteadilyIncreasing', 'Support::Support', 'Support::checkValidity',
                               'Spline::Spline', 'Spline::checkValidity', 'BSplineGenerator(knots)', 'BSplineGenerator(knots, grid)', 'BSplineGenerator::generateGrid (std::unique)',
                               'BSplineGenerator::generateBSplines<p>', 'linearCombination (argument checks)', 'interpolation::interpolate (argument checks)'])],
    bounds=dict(quick='grid/knot sequences of 0..5 symbolic elements (IEEE doubles incl. NaN, signed zeros, infinities at solver-chosen positions; and reals), all four Grid constructors; Grid<binary32> built from a sequence of binary64 values (the stored, rounded values decide); Support index pairs over {0..n+2} and the extremes of size_t on grids of 2..4 points; coefficient counts 0..n+1 for every window; generator orders 0,2,3 and supplied grids with symbolic points; (#coeffs,#splines) in {0..3}^2; interpolate sizes for every window and boundary derivative orders {0..order+2, SIZE_MAX} at either node in every slot, orders 1..4; plus fully symbolic grid sequences of 6..17 elements (IEEE and real; one path per position of the first violation), sliding runs of 2 (3) symbolic IEEE elements at every position of fixed grids of 17 and 25 points (knot vectors of 13 and 17), Support index pairs/coefficient counts on a 17-point grid, (#coeffs,#splines) in {0..9}^2, a supplied grid that continues beyond the knots',
                thorough='sequences of 0..6 elements, grids up to 5 points'),
    outside='sequences longer than the bound (the scan is a single stateless loop - stated, not proved); the full 64-bit index space of the Support constructor is covered by C13 (Engine B)',
    assumptions=['IEEE-754 binary64 comparison semantics for the F64 instantiation (z3 FPA theory)', 'exact reals for the Real instantiation'],
    trusted=A_TRUST + ['symt/symf64.h', 'z3 FPA decision procedure'],
    level_text='Bounded symbolic model checking of the validators: the element sequence is symbolic, so the position and kind of the defect (NaN, duplicate, +-0 pair, descent, infinity) is chosen by the solver; on each path the accept/refuse outcome must agree with the documented predicate, and every refusal must be the library exception.',
    level_note='Sequence lengths, index values and counts enumerated to the bound, element values symbolic; trusted: g++, libz3 (FPA, NRA), sym.h/symf64.h/harness.h, oracle in C11_validation.cpp.')

PROPS['C14'] = dict(
    engine='A+B', irsym=[dict(module='c13', checks=[2, 3, 5, 6], params=dict(quick=dict(nmax_data=3), thorough=dict(nmax_data=3)))], technique='symbolic-scalar execution of operation histories on the real classes; operands/earlier results compared with snapshots and with freshly constructed objects (history independence) under solver-enumerated paths',
    harnesses=[dict(name='C14_value', src='C14_value.cpp',
                    defs=dict(quick=['-DMAXN=3'], thorough=['-DMAXN=4', '-DMORE_ORDERS']),
                    functions=['Spline copy/move construction and assignment', 'Spline::operator()', 'Spline::isZero', 'Spline::front/back', 'Spline::operator+,-,*,/,unary -', 'Spline::operator+=,-=,*=,/=',
                               'Spline::operator=(lower order)', 'Spline::checkOverlap', 'Spline::operator==/!=', 'operator*(Operator,Spline)', 'SplineOperator', 'ScalarProduct/BilinearForm/LinearForm',
                               'linearCombination', 'Support copy/move', 'Grid copy', 'Grid::getData'])],
    bounds=dict(quick='orders 0 and 1; grids of 2..3 symbolic points; every window of the object x 2..4 partner windows; a history of 30 const operations (evaluation at a symbolic x1 or predicate queries, arithmetic, operator application, forms, linearCombination, copies, moves) followed by observation at an independent symbolic x2; 8 kinds of mutation of a copy / of the original; throwing in-place updates against a grid that differs in one symbolic point',
                thorough='orders 0..2, grids of 2..4 points'),
    outside='histories longer than the fixed sequences; pools of more than 4 objects; orders/grids above the bound',
    assumptions=['grid points strictly increasing reals', 'exact real arithmetic'],
    trusted=A_TRUST,
    level_text='Bounded symbolic model checking of value semantics: after a history of const operations with symbolic arguments every operand must show its snapshot state (window, coefficients, grid points, identity of the shared grid storage) and must answer evaluation/predicates/integration exactly like an object freshly constructed from that state, at an independent symbolic abscissa - the solver chooses the pair (x1, x2) that would expose hidden mutable state. Copies, earlier results and failed in-place updates are checked the same way.',
    level_note='Exact reals; orders, windows, grid sizes and the operation sequences are fixed/enumerated to the bound, arguments symbolic; trusted: g++, libz3, sym.h/harness.h, oracle in C14_value.cpp.')

PROPS['C10'] = dict(
    engine='A+B', irsym=[dict(module='c13', checks=[4, 6], params=dict(quick=dict(nmax_data=3), thorough=dict(nmax_data=3)))], technique='symbolic-scalar execution of operation sequences over a pool of real objects from every valid shape; class invariants checked on every live object after every step (inductive step + bounded sequences)',
    harnesses=[dict(name='C10_invariants_large', src='C10_invariants.cpp',
                    defs=dict(quick=['-DFIXED_GRID', '-DLARGE=17', '-DSEQLEN=2'], thorough=['-DFIXED_GRID', '-DLARGE=20', '-DNSAMPLE=9', '-DSEQLEN=2']),
                    functions=['the 18 operations (each alone, and sampled two-step sequences) from sampled window pairs of a 17-point (thorough: 20-point) fixed rational grid; the Support life cycle on every window pair of a 12-point grid']),
               dict(name='C10_invariants', src='C10_invariants.cpp',
                    defs=dict(quick=['-DMAXN=3', '-DSEQLEN=2'], thorough=['-DMAXN=4', '-DSEQLEN=2']),
                    functions=['Spline constructors', 'Spline copy/move construction and assignment (incl. self-assignment, self-move, std::swap)', 'Spline::operator=(lower order)', 'Spline::setData',
                               'Spline::operator+=,-=,*=,/=', 'Spline::operator+,*', 'operator*(Operator,Spline)', 'linearCombination', 'Support constructors/copy/move/move-assignment',
                               'Support::createEmpty/createWholeGrid/calcUnion/calcIntersection', 'Grid copy construction/assignment', 'Spline::checkValidity/Support::checkValidity/Grid::checkValidity (BSPLINE_ADD_TEST_CHECKS)'])],
    bounds=dict(quick='pool of 3 order-1 splines + a lower-order and a foreign-grid spline; every pair of windows (empty, point-like, all s<e<=n) on grids of 2..3 symbolic points; every sequence of 1 or 2 operations out of 18 (copy/move/self-move/self-copy assignment, +=, -=, *= by a symbolic scalar that may be zero, /=, lower-order assignment, results of + / operator application / linearCombination assigned, move-construct-and-destroy, throwing += on a different grid, throwing construction, reuse of moved-from objects, std::swap), followed by combining and reassigning every object; Support-level copies/moves/self-moves/algebra for every window pair on grids of 2..4 points; plus all 18 operations alone and sampled two-step sequences from 36 sampled window pairs of a 17-point FIXED rational grid, and the Support life cycle on every window pair of a 12-point grid',
                thorough='grids of 2..4 points for the spline pool, 2..5 for supports'),
    outside='sequences longer than 2 operations before the final reuse step (the step is checked from every valid shape, which is the inductive argument for longer histories); pools of other orders; the 64-bit index space of Support is covered by C13 (Engine B)',
    assumptions=['grid points strictly increasing reals', 'exact real arithmetic'],
    trusted=A_TRUST,
    level_text='Bounded symbolic model checking of the invariants: starting from every valid shape with symbolic contents, each public operation (and each pair of operations) is executed on the real classes and every live object - targets, operands, moved-from objects, objects that saw a throwing call - must satisfy window validity, one coefficient array per interval and an unchanged strictly increasing grid; moved-from objects must be interval-free and are then reused.',
    level_note='Exact reals; shapes, operations and sequence length enumerated to the bound, scalars symbolic (zero included via solver forks); trusted: g++, libz3, sym.h/harness.h, invariant predicate in C10_invariants.cpp.')

_ARCH = ['-DSYMT_STRICT', '-DSYMT_POISON_DEFAULT', '-DSYMT_POISON_MOVED']
_ARCH_T = ['-DSYMT_STRICT', '-DSYMT_POISON_DEFAULT', '-DSYMT_TRIVIAL']
PROPS['C19'] = dict(
    engine='A', technique='archetype instantiation: every core template and the generic interpolate are compiled and symbolically executed with a scalar type offering ONLY the documented operations (default-constructed and moved-from values are arbitrary, not zero; a second flavour is trivially copyable with arbitrary zero bytes); obligations of C01-C08, C12, C15 re-proved with it',
    compile_failure_is_violation=True,
    harnesses=[
        dict(name='C19_generator', src='C01_generator.cpp', chunk=1, defs=dict(quick=_ARCH + ['-DMAXP=2', '-DEXTRA=3'], thorough=_ARCH + ['-DMAXP=3', '-DEXTRA=4', '-DSMOOTHNESS']), functions=['BSplineGenerator<T>', 'generateBSplines<p>']),
        dict(name='C19_eval', src='C02_eval.cpp', defs=dict(quick=_ARCH + ['-DMAXN=3', '-DMAXO=2', '-DHISTN=2'], thorough=_ARCH + ['-DMAXN=4', '-DMAXO=3', '-DHISTN=3']), functions=['Spline<T,order>::operator()', 'Support<T>', 'Grid<T>']),
        dict(name='C19_arith', src='C03_arith.cpp', defs=dict(quick=_ARCH + ['-DMAXN=4', '-DMAXO=1', '-DLCN=3'], thorough=_ARCH + ['-DMAXN=5', '-DMAXO=2', '-DLCN=4']), functions=['Spline arithmetic', 'linearCombination']),
        dict(name='C19_primops', src='C04_primops.cpp', defs=dict(quick=_ARCH + ['-DMAXN=3', '-DMAXO=2', '-DMAXD=3'], thorough=_ARCH + ['-DMAXN=4', '-DMAXO=3', '-DMAXD=4']), functions=['Derivative<n>', 'Position<n>', 'IdentityOperator']),
        dict(name='C19_grids', src='C08_grids.cpp', pre_includes=['symt/stub'], defs=dict(quick=_ARCH + ['-DMAXN=3'], thorough=_ARCH + ['-DMAXN=4']), functions=['integration::integrate<n>', 'SplineOperator<T,order>', 'BSplineGenerator(knots, grid)']),
        dict(name='C19_interp', src='C12_interp.cpp', defs=dict(quick=_ARCH + ['-DMAXO=3', '-DMAXNODES=3', '-DFULLSEQ_MAXO=2'], thorough=_ARCH + ['-DMAXO=4', '-DMAXNODES=4', '-DFULLSEQ_MAXO=3']), functions=['interpolation::interpolate<T,order,Solver>']),
        dict(name='C19_predicates', src='C15_predicates.cpp', defs=dict(quick=_ARCH + ['-DMAXN=3', '-DMAXO=1'], thorough=_ARCH + ['-DMAXN=4', '-DMAXO=2']), functions=['Spline::isZero', 'Spline::operator==', 'Spline::checkOverlap']),
        # second archetype flavour: a trivially copyable scalar whose all-zero bytes are not the number zero (sym.h, -DSYMT_TRIVIAL)
        dict(name='C19_arith_trivial', src='C03_arith.cpp', defs=dict(quick=_ARCH_T + ['-DMAXN=4', '-DMAXO=1', '-DLCN=3'], thorough=_ARCH_T + ['-DMAXN=5', '-DMAXO=2', '-DLCN=4']), functions=['Spline arithmetic, linearCombination (trivially copyable scalar)']),
        dict(name='C19_eval_trivial', src='C02_eval.cpp', defs=dict(quick=_ARCH_T + ['-DMAXN=3', '-DMAXO=2', '-DHISTN=2'], thorough=_ARCH_T + ['-DMAXN=4', '-DMAXO=3', '-DHISTN=3']), functions=['Spline::operator() (trivially copyable scalar)']),
        dict(name='C19_primops_trivial', src='C04_primops.cpp', defs=dict(quick=_ARCH_T + ['-DMAXN=3', '-DMAXO=2', '-DMAXD=3'], thorough=_ARCH_T + ['-DMAXN=4', '-DMAXO=3', '-DMAXD=4']), functions=['Derivative<n>, Position<n> (trivially copyable scalar)']),
        dict(name='C19_generator_trivial', src='C01_generator.cpp', chunk=1, defs=dict(quick=_ARCH_T + ['-DMAXP=2', '-DEXTRA=2'], thorough=_ARCH_T + ['-DMAXP=3', '-DEXTRA=3']), functions=['BSplineGenerator<T> (trivially copyable scalar)']),
        dict(name='C19_interp_trivial', src='C12_interp.cpp', defs=dict(quick=_ARCH_T + ['-DMAXO=3', '-DMAXNODES=3', '-DFULLSEQ_MAXO=2'], thorough=_ARCH_T + ['-DMAXO=4', '-DMAXNODES=4', '-DFULLSEQ_MAXO=2']), functions=['interpolate<T,order,Solver> (trivially copyable scalar)']),
        dict(name='C19_instantiate', src='C19_instantiate.cpp', defs=dict(quick=_ARCH, thorough=_ARCH), functions=['explicit instantiation of Grid<T>, Support<T>, Spline<T,0..3>, BSplineGenerator<T>, SplineOperator<T,1>, ScalarMultiplication, OperatorSum, OperatorProduct, BilinearForm, LinearForm']),
    ],
    generated=[dict(mode='c06', ntu=4, template=dict(defs=dict(quick=_ARCH + ['-DMAXN=3', '-DMAXO=2', '-DFO=1'], thorough=_ARCH + ['-DMAXN=4', '-DMAXO=3', '-DFO=1']), functions=['BilinearForm<O1,O2>', 'compound/scalar operators'])),
               dict(mode='c07', ntu=4, template=dict(defs=dict(quick=_ARCH + ['-DMAXN=3', '-DMAXO=2', '-DFO=1'], thorough=_ARCH + ['-DMAXN=4', '-DMAXO=3', '-DFO=1']), functions=['LinearForm<O>']))],
    bounds=dict(quick='the harnesses of C01 (p<=2, m<=p+3), C02, C03, C04, C06, C07, C08, C12, C15 at reduced bounds plus an explicit-instantiation unit, all built with -DSYMT_STRICT -DSYMT_POISON_DEFAULT: no abs/fabs, no numeric_limits specialisation, construction from integral types only (explicit), copy-only, default-constructed value = arbitrary number; a moved-from scalar is an arbitrary number too (-DSYMT_POISON_MOVED); the harnesses of C01-C04 and C12 again with a trivially copyable scalar whose all-zero bytes denote an arbitrary number (-DSYMT_TRIVIAL)',
                thorough='the same harnesses at the quick bounds of their own properties'),
    outside='scalar types with additional quirks (non-commutative multiplication, throwing operations); streaming is not offered by the archetype, so any use is a compile error; the bundled Eigen/Armadillo adapters (need a numeric type those libraries accept)',
    assumptions=['the archetype sym::Real (strict build) offers exactly the documented operations', 'exact real arithmetic'],
    trusted=A_TRUST,
    level_text='Archetype check decided by compiler + solver: if any core template needs an operation outside the documented list, the strict build does not compile and that diagnostic is the violation; "with an exact field type all results are exact" is the conjunction of the equalities of C01-C08, C12, C15, re-proved over the reals with the strict archetype whose default-constructed values are unconstrained symbols (so reliance on value-initialisation being zero is exposed).',
    level_note='Compile-time part is exact for the instantiations listed; run-time part is bounded like the underlying properties; trusted: g++, libz3, sym.h (strict build).')

_SAN = dict(always_sanitize=True)
_MEMKINDS = ['stl-assert', 'asan', 'signal', 'divzero', 'memory', 'spec']
PROPS['C09'] = dict(
    engine='A+B', irsym=[dict(module='c13', checks=[0, 1, 4, 5, 6], params=dict(quick=dict(nmax_data=3, nmax_large=10), thorough=dict(nmax_data=4, nmax_large=13))),
                        dict(module='c18', tiers=['quick'], params=dict(quick=dict(nmax=3, gen_sizes=[2])),
                             select=dict(quick=['chk_eval1', 'chk_eval', 'chk_iszero', 'chk_scopy', 'chk_applyX1', 'chk_applyX3', 'chk_applyDx1', 'chk_mul', 'chk_splop', 'chk_bilin', 'chk_scalarprod', 'chk_linform', 'chk_scale', 'chk_generate1'])),
                        dict(module='c18', tiers=['thorough'], params=dict(thorough=dict(nmax=3)), select=dict(thorough=['chk_eval', 'chk_eval1', 'chk_add_shared', 'chk_add_distinct', 'chk_mul', 'chk_splop', 'chk_bilin', 'chk_linform', 'chk_applyX1', 'chk_scopy']))],
    b_timeout_s=dict(quick=900, thorough=3000),
    technique='(A) symbolic-scalar execution of the real templates under checked STL + AddressSanitizer + UBSan on every solver-enumerated path; reachability of a zero divisor decided by the solver at every scalar division; (B) symbolic execution of the compiled IR with 64-bit symbolic indices/windows where every load/store is resolved by the solver against the live objects',
    only_kinds=_MEMKINDS,
    harnesses=[
        dict(_SAN, asan_always=True, name='C09_lifetime', src='C09_lifetime.cpp', defs=dict(quick=[], thorough=[]),
             functions=['by-value getters of temporaries (BSplineGenerator::getGrid, Grid::getData), supports/splines/results/operators/forms that outlive the objects they were built from (AddressSanitizer in both tiers)']),
        dict(_SAN, name='C09_eval', src='C02_eval.cpp', defs=dict(quick=['-DMAXN=4', '-DMAXO=2', '-DHISTN=3'], thorough=['-DMAXN=5', '-DMAXO=3', '-DHISTN=3']), functions=['Spline::operator()', 'Spline::findInterval', 'Support iterators/accessors']),
        dict(_SAN, name='C09_arith', src='C03_arith.cpp', defs=dict(quick=['-DMAXN=4', '-DMAXO=2', '-DLCN=3'], thorough=['-DMAXN=5', '-DMAXO=2', '-DLCN=4']), functions=['Spline arithmetic', 'linearCombination', 'internal::add/changearraysize']),
        dict(_SAN, name='C09_primops', src='C04_primops.cpp', defs=dict(quick=['-DMAXN=3', '-DMAXO=3', '-DMAXD=4'], thorough=['-DMAXN=4', '-DMAXO=4', '-DMAXD=5']), functions=['Derivative<n>::transform', 'Position<n>::transform']),
        dict(_SAN, name='C09_generator', src='C01_generator.cpp', chunk=1, defs=dict(quick=['-DMAXP=2', '-DEXTRA=4'], thorough=['-DMAXP=3', '-DEXTRA=4']), functions=['BSplineGenerator', 'generateBSplines<p>']),
        dict(_SAN, name='C09_grids', src='C08_grids.cpp', pre_includes=['symt/stub'], defs=dict(quick=['-DMAXN=3'], thorough=['-DMAXN=4']), functions=['all multi-spline entry points incl. throwing paths (unwinding)']),
        dict(_SAN, name='C09_interp', src='C12_interp.cpp', defs=dict(quick=['-DMAXO=3', '-DMAXNODES=3', '-DFULLSEQ_MAXO=2'], thorough=['-DMAXO=4', '-DMAXNODES=4', '-DFULLSEQ_MAXO=3']), functions=['interpolation::interpolate']),
        dict(_SAN, name='C09_quadrature', src='C17_quadrature.cpp', pre_includes=['symt/stub'], defs=dict(quick=['-DMAXQ=2', '-DMAXO=2', '-DMAXN=3'], thorough=['-DMAXQ=3', '-DMAXO=2', '-DMAXN=4']), functions=['integration::integrate<n>']),
        dict(_SAN, name='C09_predicates', src='C15_predicates.cpp', defs=dict(quick=['-DMAXN=3', '-DMAXO=2'], thorough=['-DMAXN=4', '-DMAXO=2']), functions=['Spline::isZero/checkOverlap/operator==']),
        dict(_SAN, name='C09_invariants', src='C10_invariants.cpp', defs=dict(quick=['-DMAXN=2', '-DSEQLEN=2'], thorough=['-DMAXN=3', '-DSEQLEN=2']), functions=['copy/move/self-move/swap, throwing calls, reuse of moved-from objects']),
        dict(_SAN, name='C09_value', src='C14_value.cpp', defs=dict(quick=['-DMAXN=2'], thorough=['-DMAXN=3']), functions=['operation histories incl. throwing in-place updates']),
    ],
    generated=[dict(mode='c05', ntu=16, env=dict(quick={'C05_L2_QUICK': '48', 'C05_DEEP': '16'}), template=dict(_SAN, defs=dict(quick=['-DMAXN=3', '-DMAXO=2', '-DFO=1'], thorough=['-DMAXN=4', '-DMAXO=2', '-DFO=1']), functions=['every operator transform incl. SplineOperator with every factor placement'])),
               dict(mode='c06', ntu=8, template=dict(_SAN, defs=dict(quick=['-DMAXN=3', '-DMAXO=2', '-DFO=1'], thorough=['-DMAXN=4', '-DMAXO=3', '-DFO=1']), functions=['BilinearForm::evaluate/evaluateInterval'])),
               dict(mode='c07', ntu=8, template=dict(_SAN, defs=dict(quick=['-DMAXN=3', '-DMAXO=2', '-DFO=1'], thorough=['-DMAXN=4', '-DMAXO=3', '-DFO=1']), functions=['LinearForm::evaluate/evaluateInterval']))],
    bounds=dict(quick='layer 2+3: the harnesses of C01-C08, C10, C12, C14, C15, C17 at reduced bounds (grids <=3-4 points, orders <=2-3, every window placement, every solver-feasible value-dependent path) built with -D_GLIBCXX_ASSERTIONS -D_GLIBCXX_DEBUG -fsanitize=undefined (quick) plus -fsanitize=address (thorough); every scalar division checked for a reachable zero divisor. Layer 1 (Engine B): all 2^64 index values of the checked accessors and of the Support life-cycle, and byte-level bounds of every load/store of 14 Spline-level operations (evaluation, copy, operator application incl. SplineOperator, product, forms, generator) with symbolic windows on grids of 2..3 points; plus an object-lifetime harness under AddressSanitizer in BOTH tiers (by-value getters of temporaries, supports/splines/results/operators/forms that outlive what they were built from)',
                thorough='the same harnesses one size larger'),
    outside='allocation failure, stack exhaustion, call sequences that violate documented preconditions (unchecked operator[] with out-of-range index), orders/grids above the bounds; uninitialised reads are only caught where they change a checked result (see C19 for default-constructed scalars)',
    assumptions=['grid points strictly increasing reals', 'exact real arithmetic for values (indices, sizes, iterator arithmetic are the real machine integers of the compiled code)'],
    trusted=A_TRUST + ['libstdc++ debug assertions', 'AddressSanitizer/UBSan runtime of g++ 12'],
    level_text='Bounded symbolic exploration under sanitizers: because every feasible value-dependent path of every enumerated structure is executed (the solver decides which paths exist), an out-of-bounds index, use after free, signed overflow or null dereference on any of them is hit and reported with a model of the path; division by zero is a solver query at each division. Functional obligations failing in these builds are attributed to their own properties.',
    level_note='Sanitizers observe the concrete memory behaviour of each symbolic path; indices as 64-bit symbolic values are Engine B\'s part; trusted: g++ sanitizer runtimes, libz3, sym.h/harness.h.')

B_TRUST = ['clang 14 lowering at -O1 (the IR is what is verified; the native replay library is built from the same translation unit)', 'irsym/irsym.py IR semantics (validated differentially against the native build on every run)',
           'the environment stubs listed in evidence', 'z3 5.1 bit-vector/array/FP decision procedures', 'the specifications in irsym/harness/*.py']
PROPS['C13'] = dict(
    engine='B', technique='symbolic execution of the LLVM IR clang emits for wrappers around the real Support<double>/Grid<double> members; indices, window bounds and grid size are 64-bit bit-vector variables; obligations against widened (non-wrapping) specifications; native ctypes replay',
    irsym=[dict(module='c13', params=dict(quick=dict(nmax_data=3, nmax_large=10), thorough=dict(nmax_data=4, nmax_large=13)))],
    bounds=dict(quick='every public member of Support<double>: ALL 2^64 values of every index argument and of start/end of up to three supports (assumed: representation invariant), grid sizes 2..2^60-1 with abstract grid data wherever the function does not read grid points (any dereference would be reported); equality of supports on two distinct grid vectors and Grid::findElement/operator== with real element loops: grid sizes <= 3, points symbolic IEEE doubles (strictly increasing); Grid::findElement and Grid::operator== additionally on 10-point vectors of symbolic IEEE points (binary search and element loop beyond 8 points)',
                thorough='grid sizes <= 4 where grid data is read'),
    outside='grids with more than 2^60-1 points (vector<double>::max_size()); more than 4 points where grid data is read; scalar types other than double (the index logic does not depend on T)',
    assumptions=['pre-state satisfies the class invariant ((start=0 and end=0) or start<end<=n, n>=2)', 'every grid is shared (use_count >= 2), so the last-owner release path is not taken', 'allocation does not fail'],
    trusted=B_TRUST,
    level_text='Bounded symbolic model checking of the compiled code: the window algebra and the index conversions are decided for every 64-bit index and window (not a sample), which is where the interesting inputs are single points of a 2^64 space (index+1 wrapping to 0). Union/intersection are proved equal to hull/meet-with-empty-normalisation, commutative (reversed call), idempotent (aliased call), associative (two chained real calls each way); equality, accessors, size/interval count and iteration bounds are proved to describe the same window; checked accessors must throw for every index outside.',
    level_note='64-bit indices exact; grid size abstract up to 2^60 where data is not read, <=3 (4) points otherwise; trusted: clang -O1 lowering, irsym executor (differentially validated), stubs, z3.')

_C18_QUICK = ['chk_eval1', 'chk_eval', 'chk_iszero', 'chk_sfront', 'chk_sback', 'chk_scopy', 'chk_overlap', 'chk_sequal', 'chk_applyX1', 'chk_applyX3', 'chk_applyDx1', 'chk_add_shared', 'chk_add_distinct', 'chk_mul', 'chk_splop', 'chk_bilin', 'chk_scalarprod', 'chk_linform', 'chk_scale', 'chk_lincomb', 'chk_classscalar', 'chk_generate1', 'chk_module_scan', 'chk_eval1_n11', 'chk_iszero_n11', 'chk_linform_n11', 'chk_sequal_n10']
PROPS['C18'] = dict(
    engine='B', technique='non-interference by symbolic execution of the compiled IR: every store/atomic/global access of each const operation is logged per path and checked against the ownership of the memory it hits; findings replayed with 4 threads under ThreadSanitizer',
    irsym=[dict(module='c18', tsan_driver='tsan_driver.cpp', params=dict(quick=dict(nmax=3, gen_sizes=[2]), thorough=dict(nmax=4, gen_sizes=[2, 3])), select=dict(quick=_C18_QUICK, thorough=None)),
           dict(module='c13', checks=[2, 3], params=dict(quick=dict(nmax_data=3), thorough=dict(nmax_data=3)))],
    b_timeout_s=dict(quick=900, thorough=3000),
    bounds=dict(quick='19 operations on Spline<double,k<=2> (evaluation on orders 1 and 2, isZero, front/back, copy construction + destruction, checkOverlap, ==, scalar multiple, operator+, operator*(Spline), X<1>/X<3>/Dx<1>/SplineOperator application (heap allocation, vector growth, memmove, all destructors), bilinear form, scalar product, linear form, generateBSplines<1> on a const generator over a 2-point grid) with windows of every operand and the grid size (2..3) as 64-bit symbolic values, grid points symbolic IEEE doubles, coefficients unconstrained; two-operand operations additionally with the operands on two distinct grid vectors (so Grid::operator== runs its element loop); Support union/intersection/equality as in C13; plus operator(), isZero, LinearForm and spline equality on supports with 9..10 intervals (grid sizes and windows concrete, points and coefficients symbolic); linearCombination; forms, products, sums, operator application, linearCombination and evaluation instantiated with a class-type (not trivially copyable) scalar whose operands are private to the call',
                thorough='grids of 2..4 points; generator over 2- and 3-point grids'),
    outside='interleavings are not enumerated (the non-interference theorem is in the trusted base); operations on non-const shared objects (not promised by the library); grids above 3 (4) points; generators with other knot patterns than simple knots with doubled ends; the last-owner release of a grid (use_count >= 2 assumed for shared grids)',
    assumptions=['operands satisfy their class invariants', 'every grid involved is shared (use_count >= 2)', 'atomic read-modify-write on the use count behaves atomically (hardware/compiler)', 'C++11 thread-safe initialisation of function-local statics', 'allocation does not fail; the allocator is thread-safe'],
    trusted=B_TRUST + ['the non-interference theorem: writes only to thread-private memory or atomic RMW on counters + no non-atomic write to any location another thread reads => data-race freedom and sequentially identical results'],
    level_text='Bounded symbolic model checking of a sufficient condition: for all inputs within the bound, each operation writes only to its own stack, to heap it allocated on that path or to its result object; the only accesses that modify shared memory are atomic RMWs on shared_ptr use counts (balanced at the end); no mutable global is read or written; results do not depend on the count. Interleavings need not be enumerated because the premise of the non-interference theorem is established for every operation.',
    level_note='Data-race freedom follows from the per-operation premise by a standard theorem (trusted), not from exploring schedules; bounded to grids <=3 points and orders <=2 (3,4 for results); trusted: clang lowering, irsym executor, stubs, z3.')

_NOT_BUILT = 'check not built yet in this round (planned, see DESIGN.md section 5)'
NOT_APPLICABLE = {
    'C16': 'floating-point forward-error bound: bit-precise FP or (1+delta) NRA encodings of even the smallest instance return unknown/timeout on every installed solver (DESIGN.md section 7)',
    'C20': 'example programs are fixed to double and hand dense matrices to Eigen QR / generalized eigen-solvers; neither engine can encode that code (DESIGN.md section 7)',
}
for _p in ['C%02d' % i for i in range(1, 21)]:
    if _p not in PROPS and _p not in NOT_APPLICABLE:
        NOT_APPLICABLE[_p] = _NOT_BUILT
