"""Per-property check specifications (what is compiled, with which bounds, for which tier)."""

A_TRUST = ['g++ 12 template instantiation (same source for double and sym::Real)', 'libz3 4.8.12 QF_NRA (nlsat), fresh solver per query',
           'symt/sym.h + symt/harness.h (~700 lines)', 'the oracle written in the harness source']

PROPS = {}

PROPS['C02'] = dict(
    engine='A', technique='symbolic-scalar execution of the real templates (T = z3 real terms) + QF_NRA obligations, exact-rational replay',
    harnesses=[dict(name='C02_eval', src='C02_eval.cpp',
                    defs=dict(quick=['-DMAXN=5', '-DMAXO=3'], thorough=['-DMAXN=6', '-DMAXO=5']),
                    functions=['Spline::operator()', 'Spline::findInterval', 'Spline::front', 'Spline::back', 'Support::begin', 'Support::end', 'Support::front',
                               'Support::back', 'Support::size', 'Support::operator[]', 'Grid::operator[]', 'internal::evaluateInterval', 'std::lower_bound (libstdc++)'])],
    bounds=dict(quick='grids of 2..5 symbolic points, every window (empty, point-like, all s<e<=n), orders 0..3, symbolic coefficients and abscissa',
                thorough='grids of 2..6 symbolic points, every window, orders 0..5'),
    outside='orders/grids above the bound; NaN abscissa; floating-point rounding (C16)',
    assumptions=['grid points strictly increasing reals', 'exact real arithmetic (sym::Real), not IEEE'],
    trusted=A_TRUST,
    level_text='Bounded symbolic model checking of the real evaluation code: for every window/order/grid size inside the bound, all real-valued grids, coefficients and abscissae are covered by solver-decided paths; the claim is an SMT obligation per path. Right level because the property quantifies over a continuum of inputs with rare special points (x on a grid point, x at either end).',
    level_note='Exact real arithmetic stands in for the scalar type (not IEEE); structure (window, order, grid size) enumerated up to the bound; trusted: g++, libz3, sym.h/harness.h, the oracle in C02_eval.cpp.')

_NOT_BUILT = 'check not built yet in this round (planned, see DESIGN.md section 5)'
NOT_APPLICABLE = {
    'C16': 'floating-point forward-error bound: bit-precise FP or (1+delta) NRA encodings of even the smallest instance return unknown/timeout on every installed solver (DESIGN.md section 7)',
    'C20': 'example programs are fixed to double and hand dense matrices to Eigen QR / generalized eigen-solvers; neither engine can encode that code (DESIGN.md section 7)',
}
for _p in ['C%02d' % i for i in range(1, 21)]:
    if _p not in PROPS and _p not in NOT_APPLICABLE:
        NOT_APPLICABLE[_p] = _NOT_BUILT
