"""Shared machinery of the Engine B harnesses: building the IR and the native library from $REPO, obligations, replay."""
import ctypes, json, os, subprocess, sys, time
import z3
from irsym import *
from prestate import *

CLANG_FLAGS = ['-std=c++17', '-O1', '-fno-vectorize', '-fno-slp-vectorize', '-fno-unroll-loops']


def lower(repo, src, work, name, extra=()):
    ll = os.path.join(work, name + '.ll')
    r = subprocess.run(['clang++-14'] + CLANG_FLAGS + list(extra) + ['-I', os.path.join(repo, 'include'), '-S', '-emit-llvm', src, '-o', ll], stdout=subprocess.PIPE, stderr=subprocess.STDOUT, text=True)
    if r.returncode != 0: raise EngineError('clang failed on %s:\n%s' % (src, r.stdout[-3000:]))
    return ll


def build_native(repo, src, work, name, extra=()):
    so = os.path.join(work, 'lib' + name + '.so')
    r = subprocess.run(['g++', '-std=c++17', '-O1', '-shared', '-fPIC', '-DNATIVE_SHIM'] + list(extra) + ['-I', os.path.join(repo, 'include'), src, '-o', so], stdout=subprocess.PIPE, stderr=subprocess.STDOUT, text=True)
    if r.returncode != 0: raise EngineError('g++ failed on %s:\n%s' % (src, r.stdout[-3000:]))
    return so


class Result:
    def __init__(s, name):
        s.d = dict(case=name, paths=0, obligations=0, discharged=0, queries=0, solver_s=0.0, slowest_s=0.0, accesses=0, violations=[], inconclusive=[], notes=[], samples=[],
                   validation_cases=0, nontrivial=[], controls=0, controls_sat=0)
    def absorb(s, ex):
        s.d['queries'] += ex.queries; s.d['solver_s'] += ex.solver_time; s.d['slowest_s'] = max(s.d['slowest_s'], ex.slowest); s.d['accesses'] += ex.accesses


def model_of(m, world):
    out = {}
    for k, v in world.vars.items():
        val = m.eval(v, model_completion=True)
        out[k] = val.as_long()
    return out


def prove(R, world, st, claim, key, native=None, small=None, timeout_ms=60000):
    """pc /\\ not claim must be unsat. On sat: take a model (preferring one that satisfies `small`, so that it can be replayed
    with real objects), replay it through `native` (returns (violated?, message)) and record the violation."""
    R.d['obligations'] += 1
    t0 = time.time()
    neg = z3.simplify(z3.Not(claim))
    if z3.is_false(neg):
        R.d['discharged'] += 1; return True
    R.d['nontrivial'].append(hash(neg.sexpr()) & 0xffffffff)
    if len(R.d['samples']) < 2:
        R.d['samples'].append(dict(key=key, negated_claim=neg.sexpr()[:900], path_condition=[c.sexpr()[:200] for c in st.pc[:12]]))
    sl = z3.Solver(); sl.set('timeout', timeout_ms); sl.add(st.pc); sl.add(neg)
    r = sl.check()
    dt = time.time() - t0; R.d['solver_s'] += dt; R.d['slowest_s'] = max(R.d['slowest_s'], dt)
    if r == z3.unsat:
        R.d['discharged'] += 1; return True
    if r == z3.unknown:
        R.d['inconclusive'].append('obligation %s: solver unknown/timeout' % key); return False
    m = sl.model()
    if small is not None:
        sl.push(); sl.add(small)
        if sl.check() == z3.sat: m = sl.model()
        sl.pop()
    mod = model_of(m, world)
    v = dict(key=key, kind='spec', detail='negated claim satisfiable', model={k: str(x) for k, x in mod.items()}, engine='B', trail='')
    if native is not None:
        try:
            ok, msg = native(mod)
        except Exception as e:  # replay machinery failed: cannot confirm
            ok, msg = None, 'native replay failed: %r' % (e,)
        v['replayed'] = bool(ok); v['replay_msg'] = msg
    else:
        v['replayed'] = False; v['replay_msg'] = 'no native replay available for this obligation'
    R.d['violations'].append(v)
    return False


def control(R, st, wrong_claim, key):
    """Negative control / reachability witness: the path is feasible and a perturbed specification is refutable on it."""
    R.d['controls'] += 1
    sl = z3.Solver(); sl.set('timeout', 60000); sl.add(st.pc); sl.add(z3.Not(wrong_claim))
    if sl.check() == z3.sat: R.d['controls_sat'] += 1
    else: R.d['inconclusive'].append('negative control %s is not satisfiable: the harness cannot tell a wrong answer from a right one' % key)


def violation_from_exec(R, world, vio, key, native=None, small=None):
    """An out-of-bounds / use-after-free found by the executor itself."""
    sl = z3.Solver(); sl.set('timeout', 60000); sl.add(vio.st.pc); sl.add(vio.cond)
    R.d['obligations'] += 1
    if sl.check() != z3.sat:
        R.d['inconclusive'].append('memory violation %s without model: %s' % (key, vio.msg)); return
    m = sl.model()
    if small is not None:
        sl.push(); sl.add(small)
        if sl.check() == z3.sat: m = sl.model()
        sl.pop()
    mod = model_of(m, world)
    v = dict(key=key, kind='memory', detail=vio.msg[:300], model={k: str(x) for k, x in mod.items()}, engine='B', trail='')
    if native is not None:
        try: ok, msg = native(mod)
        except Exception as e: ok, msg = None, 'native replay failed: %r' % (e,)
        v['replayed'] = bool(ok); v['replay_msg'] = msg
    else:
        v['replayed'] = False; v['replay_msg'] = 'no native replay'
    R.d['violations'].append(v)


# ---------------------------------------------------------------- native side (ctypes)
class Native:
    def __init__(s, so):
        s.lib = ctypes.CDLL(so)
        L = s.lib
        if not hasattr(L, 'n_mk_grid'): return   # a wrapper file without native shims (replay is done differently there)
        L.n_mk_grid.restype = ctypes.c_void_p; L.n_mk_grid.argtypes = [ctypes.POINTER(ctypes.c_double), ctypes.c_size_t]
        L.n_mk_support.restype = ctypes.c_void_p; L.n_mk_support.argtypes = [ctypes.c_void_p, ctypes.c_size_t, ctypes.c_size_t]
        L.n_grid_data.restype = ctypes.c_void_p; L.n_grid_data.argtypes = [ctypes.c_void_p]
        L.n_free_grid.argtypes = [ctypes.c_void_p]; L.n_free_support.argtypes = [ctypes.c_void_p]
    def grid(s, n, pts=None):
        if n > 100000: raise ValueError('grid of %d points is too large for a native replay' % n)
        pts = pts if pts is not None else [float(k) for k in range(n)]
        arr = (ctypes.c_double * n)(*pts[:n])
        g = s.lib.n_mk_grid(arr, n)
        if not g: raise ValueError('native grid construction refused (n=%d)' % n)
        return g
    def support(s, g, st, en):
        p = s.lib.n_mk_support(g, st, en)
        if not p: raise ValueError('native support construction refused (%d,%d)' % (st, en))
        return p
    def call(s, fn, *args):
        """calls n_<fn>(args..., out pointers appended by caller); returns rc"""
        return getattr(s.lib, 'n_' + fn)(*args)
