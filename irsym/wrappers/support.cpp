// extern "C" wrappers around the public members of the real Support<double> / Grid<double>.
// Lowered to LLVM IR by clang (-O1) for the symbolic executor and compiled natively (with the n_* shims that turn
// exceptions into return codes) for counterexample replay and translator validation.
#include <bspline/support/Support.h>
#include <cstddef>
#include <new>
using S = bspline::support::Support<double>;
using G = bspline::support::Grid<double>;
#define W extern "C" __attribute__((noinline))

// a freshly constructed 2-point grid: the harness learns from it the initial bytes of Grid members it does not know
W void w_mk_grid2(void *mem) { new (mem) G(std::vector<double>{0.0, 1.0}); }
W int w_iifa(const S *s, size_t idx, size_t *out) { auto r = s->intervalIndexFromAbsolute(idx); if (r) { *out = *r; return 1; } return 0; }
W int w_rfa(const S *s, size_t idx, size_t *out) { auto r = s->relativeFromAbsolute(idx); if (r) { *out = *r; return 1; } return 0; }
W size_t w_afr(const S *s, size_t idx) { return s->absoluteFromRelative(idx); }
W const double *w_at(const S *s, size_t idx) { return &s->at(idx); }
W const double *w_index(const S *s, size_t idx) { return &(*s)[idx]; }
W const double *w_front(const S *s) { return &s->front(); }
W const double *w_back(const S *s) { return &s->back(); }
W const double *w_begin(const S *s) { return &*s->begin(); }
W const double *w_end(const S *s) { auto e = s->end(); return e.operator->(); }
W size_t w_size(const S *s) { return s->size(); }
W size_t w_nint(const S *s) { return s->numberOfIntervals(); }
W int w_empty(const S *s) { return s->empty(); }
W int w_contains_iv(const S *s) { return s->containsIntervals(); }
W size_t w_start(const S *s) { return s->getStartIndex(); }
W size_t w_endidx(const S *s) { return s->getEndIndex(); }
W void w_union(const S *a, const S *b, size_t *os, size_t *oe) { auto u = a->calcUnion(*b); *os = u.getStartIndex(); *oe = u.getEndIndex(); }
W void w_inter(const S *a, const S *b, size_t *os, size_t *oe) { auto u = a->calcIntersection(*b); *os = u.getStartIndex(); *oe = u.getEndIndex(); }
W void w_union3l(const S *a, const S *b, const S *c, size_t *os, size_t *oe) { auto u = a->calcUnion(*b).calcUnion(*c); *os = u.getStartIndex(); *oe = u.getEndIndex(); }
W void w_union3r(const S *a, const S *b, const S *c, size_t *os, size_t *oe) { auto u = a->calcUnion(b->calcUnion(*c)); *os = u.getStartIndex(); *oe = u.getEndIndex(); }
W void w_inter3l(const S *a, const S *b, const S *c, size_t *os, size_t *oe) { auto u = a->calcIntersection(*b).calcIntersection(*c); *os = u.getStartIndex(); *oe = u.getEndIndex(); }
W void w_inter3r(const S *a, const S *b, const S *c, size_t *os, size_t *oe) { auto u = a->calcIntersection(b->calcIntersection(*c)); *os = u.getStartIndex(); *oe = u.getEndIndex(); }
W int w_eq(const S *a, const S *b) { return *a == *b; }
W int w_ne(const S *a, const S *b) { return *a != *b; }
W int w_samegrid(const S *a, const S *b) { return a->hasSameGrid(*b); }
W void w_ctor(void *mem, const G *g, size_t s, size_t e) { new (mem) S(*g, s, e); }
W void w_copy(void *mem, const S *s) { new (mem) S(*s); }
W void w_move(void *mem, S *s) { new (mem) S(std::move(*s)); }
W void w_move_assign(S *dst, S *src) { *dst = std::move(*src); }
W void w_copy_assign(S *dst, const S *src) { *dst = *src; }
W void w_destroy(S *s) { s->~S(); }
W void w_create_empty(void *mem, const G *g) { new (mem) S(S::createEmpty(*g)); }
W void w_create_whole(void *mem, const G *g) { new (mem) S(S::createWholeGrid(*g)); }
W const double *w_gat(const G *g, size_t i) { return &g->at(i); }
W size_t w_gsize(const G *g) { return g->size(); }
W int w_geq(const G *a, const G *b) { return *a == *b; }
W size_t w_gfind(const G *g, double x) { return g->findElement(x); }

#ifdef NATIVE_SHIM
// ---- native-only helpers: real objects through the real constructors, exceptions as return codes
#include <vector>
using bspline::exceptions::BSplineException;
template <class F> static int guarded(F f) {
  try { f(); return 0; } catch (BSplineException &e) { return 100 + (int)e.getErrorCode(); } catch (...) { return 99; }
}
extern "C" {
G *n_mk_grid(const double *v, size_t n) { try { return new G(std::vector<double>(v, v + n)); } catch (...) { return nullptr; } }
G *n_share_grid(const G *g) { return new G(*g); }
void n_free_grid(G *g) { delete g; }
S *n_mk_support(const G *g, size_t s, size_t e) { try { return new S(*g, s, e); } catch (...) { return nullptr; } }
void n_free_support(S *s) { delete s; }
void *n_raw(size_t bytes) { return ::operator new(bytes); }
void n_free_raw(void *p) { ::operator delete(p); }
const double *n_grid_data(const G *g) { return &(*g)[0]; }
size_t n_sizeof_support() { return sizeof(S); }
int n_iifa(const S *s, size_t i, size_t *o, int *ret) { return guarded([&] { *ret = w_iifa(s, i, o); }); }
int n_rfa(const S *s, size_t i, size_t *o, int *ret) { return guarded([&] { *ret = w_rfa(s, i, o); }); }
int n_afr(const S *s, size_t i, size_t *o) { return guarded([&] { *o = w_afr(s, i); }); }
int n_at(const S *s, size_t i, const double **o) { return guarded([&] { *o = w_at(s, i); }); }
int n_index(const S *s, size_t i, const double **o) { return guarded([&] { *o = w_index(s, i); }); }
int n_front(const S *s, const double **o) { return guarded([&] { *o = w_front(s); }); }
int n_back(const S *s, const double **o) { return guarded([&] { *o = w_back(s); }); }
int n_begin(const S *s, const double **o) { return guarded([&] { *o = w_begin(s); }); }
int n_end(const S *s, const double **o) { return guarded([&] { *o = w_end(s); }); }
int n_size(const S *s, size_t *o) { return guarded([&] { *o = w_size(s); }); }
int n_nint(const S *s, size_t *o) { return guarded([&] { *o = w_nint(s); }); }
int n_empty(const S *s, size_t *o) { return guarded([&] { *o = w_empty(s); }); }
int n_contains_iv(const S *s, size_t *o) { return guarded([&] { *o = w_contains_iv(s); }); }
int n_union(const S *a, const S *b, size_t *os, size_t *oe) { return guarded([&] { w_union(a, b, os, oe); }); }
int n_inter(const S *a, const S *b, size_t *os, size_t *oe) { return guarded([&] { w_inter(a, b, os, oe); }); }
int n_union3l(const S *a, const S *b, const S *c, size_t *os, size_t *oe) { return guarded([&] { w_union3l(a, b, c, os, oe); }); }
int n_union3r(const S *a, const S *b, const S *c, size_t *os, size_t *oe) { return guarded([&] { w_union3r(a, b, c, os, oe); }); }
int n_inter3l(const S *a, const S *b, const S *c, size_t *os, size_t *oe) { return guarded([&] { w_inter3l(a, b, c, os, oe); }); }
int n_inter3r(const S *a, const S *b, const S *c, size_t *os, size_t *oe) { return guarded([&] { w_inter3r(a, b, c, os, oe); }); }
int n_eq(const S *a, const S *b, size_t *o) { return guarded([&] { *o = w_eq(a, b); }); }
int n_ne(const S *a, const S *b, size_t *o) { return guarded([&] { *o = w_ne(a, b); }); }
int n_samegrid(const S *a, const S *b, size_t *o) { return guarded([&] { *o = w_samegrid(a, b); }); }
int n_ctor(const G *g, size_t s, size_t e, size_t *os, size_t *oe) { return guarded([&] { S x(*g, s, e); *os = x.getStartIndex(); *oe = x.getEndIndex(); }); }
int n_move(S *s, size_t *os, size_t *oe, size_t *ss, size_t *se) { return guarded([&] { S x(std::move(*s)); *os = x.getStartIndex(); *oe = x.getEndIndex(); *ss = s->getStartIndex(); *se = s->getEndIndex(); }); }
int n_move_assign(S *d, S *s, size_t *os, size_t *oe, size_t *ss, size_t *se) { return guarded([&] { w_move_assign(d, s); *os = d->getStartIndex(); *oe = d->getEndIndex(); *ss = s->getStartIndex(); *se = s->getEndIndex(); }); }
int n_gat(const G *g, size_t i, const double **o) { return guarded([&] { *o = w_gat(g, i); }); }
int n_gfind(const G *g, double x, size_t *o) { return guarded([&] { *o = w_gfind(g, x); }); }
int n_geq(const G *a, const G *b, size_t *o) { return guarded([&] { *o = w_geq(a, b); }); }
}
#endif
