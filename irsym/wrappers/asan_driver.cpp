// Replay driver for memory-safety findings of Engine B that have no functional symptom (e.g. a read one past the grid data):
// the same wrappers, built with AddressSanitizer.   usage: asan_driver gfind <n> <p0> ... <p(n-1)> <x>      (values as hex bit patterns)
// exit 66 = AddressSanitizer report (ASAN_OPTIONS=exitcode=66), 0 = clean run
#include "support.cpp"
#include <cstdio>
#include <cstdlib>
#include <cstring>
#include <string>
#include <vector>
static double bits(const char *s) { unsigned long long u = strtoull(s, nullptr, 0); double d; memcpy(&d, &u, 8); return d; }
int main(int argc, char **argv) {
  if (argc < 3) return 2;
  std::string op = argv[1];
  size_t n = strtoull(argv[2], nullptr, 0);
  if ((size_t)argc < 3 + n) return 2;
  std::vector<double> pts;
  for (size_t i = 0; i < n; i++) pts.push_back(bits(argv[3 + i]));
  pts.shrink_to_fit();
  try {
    G g(pts);
    if (op == "gfind" && (size_t)argc > 3 + n) {
      try { (void)w_gfind(&g, bits(argv[3 + n])); } catch (...) {}
    }
  } catch (...) { return 3; }
  return 0;
}
