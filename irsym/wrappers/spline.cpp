// extern "C" wrappers around const operations of the real Spline<double,k>, operators and forms (Engine B: C18, C09, C14).
#include <bspline/Core.h>
#include <cstddef>
#include <new>
#include <type_traits>
using namespace bspline;
using namespace bspline::operators;
using namespace bspline::integration;
using S0 = Spline<double, 0>;
using S1 = Spline<double, 1>;
using S2 = Spline<double, 2>;
using S3 = Spline<double, 3>;
using S4 = Spline<double, 4>;
using Sup = bspline::support::Support<double>;
using Gr = bspline::support::Grid<double>;
using Gen = BSplineGenerator<double>;
#define W extern "C" __attribute__((noinline))

// freshly constructed (interval-free) objects: used by the harness to learn the initial bytes of any member it does not know
W void w_mk_grid2(void *mem) { new (mem) Gr(std::vector<double>{0.0, 1.0}); }
W void w_mk_empty1(void *mem, const Gr *g) { new (mem) S1(*g); }
W void w_mk_empty2(void *mem, const Gr *g) { new (mem) S2(*g); }
// objects built by the real constructors from a Support and a coefficient vector laid out by the harness (std::vector has the
// standard library's layout; Support/Spline keep whatever private representation they have)
W void w_ctor(void *mem, const Gr *g, size_t s, size_t e) { new (mem) Sup(*g, s, e); }
W void w_mk_spline1(void *mem, const Sup *s, std::vector<std::array<double, 2>> *v) { new (mem) S1(*s, std::move(*v)); }
W void w_mk_spline2(void *mem, const Sup *s, std::vector<std::array<double, 3>> *v) { new (mem) S2(*s, std::move(*v)); }
W size_t w_sstart(const S2 *s) { return s->getSupport().getStartIndex(); }
W size_t w_send(const S2 *s) { return s->getSupport().getEndIndex(); }
W double w_eval(const S2 *s, double x) { return (*s)(x); }
W double w_eval1(const S1 *s, double x) { return (*s)(x); }
W int w_iszero(const S2 *s) { return s->isZero(); }
W const double *w_sfront(const S2 *s) { return &s->front(); }
W const double *w_sback(const S2 *s) { return &s->back(); }
W void w_scopy(void *mem, const S2 *s) { new (mem) S2(*s); }
W void w_sdestroy(S2 *s) { s->~S2(); }
W int w_overlap(const S2 *a, const S1 *b) { return a->checkOverlap(*b); }
W int w_sequal(const S2 *a, const S2 *b) { return *a == *b; }
W void w_add(void *mem, const S2 *a, const S1 *b) { new (mem) S2(*a + *b); }
W void w_mul(void *mem, const S2 *a, const S1 *b) { new (mem) S3(*a * *b); }
W void w_scale(void *mem, const S2 *a, double c) { new (mem) S2(*a * c); }
W void w_lincomb(void *mem, const S1 *a, const S1 *b, double c) { new (mem) S1(linearCombination(std::vector<double>{c, 2.0}, std::vector<S1>{*a, *b})); }
W void w_applyX1(void *mem, const S2 *s) { new (mem) S3(X<1>{} * *s); }
W void w_applyX3(void *mem, const S1 *s) { new (mem) S4(X<3>{} * *s); }
W void w_applyDx1(void *mem, const S2 *s) { new (mem) S1(Dx<1>{} * *s); }
W void w_splop(void *mem, const S1 *v, const S2 *s) { new (mem) S3(SplineOperator{*v} * *s); }
W double w_bilin(const S2 *a, const S1 *b) { return BilinearForm{X<1>{}}(*a, *b); }
W double w_scalarprod(const S2 *a, const S1 *b) { return ScalarProduct{}(*a, *b); }
W double w_linform(const S2 *a) { return LinearForm{Dx<1>{}}(*a); }
W void w_generate1(void *mem, const Gen *g) { new (mem) std::vector<S1>(g->generateBSplines<1>()); }

// ---- a CLASS-TYPE scalar (not trivially copyable): the library may dispatch on type traits of T, and code that only such scalars
// reach (e.g. a scratch buffer kept for "expensive" number types) never runs with double. Everything except the abscissa is built
// inside the wrapper, so the only memory two threads could share is what the library itself keeps in statics.
struct Num {
  double v;
  Num() : v(0) {}
  template <typename I, std::enable_if_t<std::is_integral_v<I>, bool> = true> explicit Num(I i) : v(static_cast<double>(i)) {}
  struct FromDouble {};
  Num(FromDouble, double d) : v(d) {}
  Num(const Num &o) : v(o.v) {}
  Num &operator=(const Num &o) { v = o.v; return *this; }
  ~Num() {}
  Num operator+(const Num &o) const { return Num(FromDouble{}, v + o.v); }
  Num operator-(const Num &o) const { return Num(FromDouble{}, v - o.v); }
  Num operator*(const Num &o) const { return Num(FromDouble{}, v * o.v); }
  Num operator/(const Num &o) const { return Num(FromDouble{}, v / o.v); }
  Num operator-() const { return Num(FromDouble{}, -v); }
  Num &operator+=(const Num &o) { v += o.v; return *this; }
  Num &operator-=(const Num &o) { v -= o.v; return *this; }
  Num &operator*=(const Num &o) { v *= o.v; return *this; }
  Num &operator/=(const Num &o) { v /= o.v; return *this; }
  bool operator<(const Num &o) const { return v < o.v; }
  bool operator<=(const Num &o) const { return v <= o.v; }
  bool operator>(const Num &o) const { return v > o.v; }
  bool operator>=(const Num &o) const { return v >= o.v; }
  bool operator==(const Num &o) const { return v == o.v; }
  bool operator!=(const Num &o) const { return v != o.v; }
};
static_assert(!std::is_trivially_copyable_v<Num>, "Num must be a class-type scalar that is not trivially copyable");
W double w_classscalar(double x) {
  using GN = bspline::support::Grid<Num>;
  using SN = Spline<Num, 1>;
  GN &g = *new GN(std::vector<Num>{Num(0), Num(1), Num(3)});  // deliberately not released: the last-owner path of shared_ptr (a virtual call) is outside the executor
  std::vector<std::array<Num, 2>> ca{{Num(Num::FromDouble{}, x), Num(1)}, {Num(2), Num(Num::FromDouble{}, x)}}, cb{{Num(1), Num(2)}, {Num(3), Num(1)}};
  SN a(bspline::support::Support<Num>(g, 0, 3), ca), b(bspline::support::Support<Num>(g, 0, 3), cb);
  Num r = ScalarProduct{}(a, b) + BilinearForm{X<1>{}, Dx<1>{}}(a, b) + LinearForm{}(a + b) + (a * b)(Num(Num::FromDouble{}, x)) + (X<1>{} * a - b * Num(2))(Num(1));
  r += linearCombination(std::vector<Num>{Num(2), Num(3)}, std::vector<SN>{a, b})(Num(Num::FromDouble{}, x));
  return r.v;
}

#ifdef NATIVE_SHIM
// native-only helpers: a really constructed generator, whose bytes give the initial values of members the harness does not know
extern "C" {
size_t n_sizeof_generator() { return sizeof(Gen); }
const void *n_mk_generator(const double *k, size_t n) { try { return new Gen(std::vector<double>(k, k + n)); } catch (...) { return nullptr; } }
}
#endif
