// Native replay for C18 findings: runs one wrapped operation concurrently from several threads on const objects that
// share one grid (and on objects on an equal grid held in a distinct instance), under ThreadSanitizer.
// usage: tsan_driver <op> <n> <a_start> <a_end> <b_start> <b_end> [iterations]      exit 66 = data race reported by TSan
#include "spline.cpp"
#include <atomic>
#include <cstdio>
#include <cstdlib>
#include <cstring>
#include <string>
#include <thread>
#include <vector>
template <size_t o> Spline<double, o> mk(const Gr &g, size_t s, size_t e, double seed) {
  Sup sup(g, s, e);
  std::vector<std::array<double, o + 1>> c(sup.numberOfIntervals());
  for (size_t i = 0; i < c.size(); i++)
    for (size_t j = 0; j <= o; j++) c[i][j] = seed + 0.25 * i + 0.5 * j;
  return Spline<double, o>(sup, c);
}
int main(int argc, char **argv) {
  if (argc < 7) return 2;
  std::string op = argv[1];
  size_t n = atol(argv[2]), as = atol(argv[3]), ae = atol(argv[4]), bs = atol(argv[5]), be = atol(argv[6]);
  int iters = argc > 7 ? atoi(argv[7]) : 300;
  std::vector<double> pts;
  for (size_t k = 0; k < n; k++) pts.push_back(0.5 + 1.25 * k);
  const Gr grid(pts), grid2(pts);  // equal grids in distinct instances
  const S2 a2 = mk<2>(grid, as, ae, 1.0), c2 = mk<2>(grid2, as, ae, 2.0);
  const S1 a1 = mk<1>(grid, as, ae, 1.5), b1 = mk<1>(grid, bs, be, 3.0), d1 = mk<1>(grid2, bs, be, 3.0);
  const S2 b2 = mk<2>(grid2, as, ae, 1.0);
  std::vector<double> knots = pts;
  knots.insert(knots.begin(), pts.front());
  knots.push_back(pts.back());
  const Gen gen(knots, grid);
  std::atomic<int> go{0};
  auto body = [&](int tid) {
    while (!go.load()) {}
    alignas(16) unsigned char mem[64];
    for (int it = 0; it < iters; it++) {
      // every thread uses the SAME const objects; odd threads take the partner from the distinct-but-equal grid instance
      const S1 &p1 = (tid & 1) ? d1 : b1;
      double x = pts[(it + tid) % n] + 0.3 * ((it >> 1) % 3);
      if (op == "eval") (void)w_eval(&a2, x);
      else if (op == "eval1") (void)w_eval1(&a1, x);
      else if (op == "iszero") (void)w_iszero(&a2);
      else if (op == "sfront") { if (ae > as) (void)w_sfront(&a2); }
      else if (op == "sback") { if (ae > as) (void)w_sback(&a2); }
      else if (op == "scopy") { w_scopy(mem, &a2); w_sdestroy(reinterpret_cast<S2 *>(mem)); }
      else if (op == "overlap") (void)w_overlap(&a2, &p1);
      else if (op == "sequal") (void)w_sequal(&a2, (tid & 1) ? &b2 : &a2);
      else if (op == "add") { w_add(mem, &a2, &p1); reinterpret_cast<S2 *>(mem)->~S2(); }
      else if (op == "mul") { w_mul(mem, &a2, &p1); reinterpret_cast<S3 *>(mem)->~S3(); }
      else if (op == "scale") { w_scale(mem, &a2, 1.5); reinterpret_cast<S2 *>(mem)->~S2(); }
      else if (op == "classscalar") (void)w_classscalar(0.25 + tid);
      else if (op == "lincomb") { w_lincomb(mem, &a1, &p1, 1.5 + tid); reinterpret_cast<S1 *>(mem)->~S1(); }
      else if (op == "applyX1") { w_applyX1(mem, (tid & 1) ? &c2 : &a2); reinterpret_cast<S3 *>(mem)->~S3(); }
      else if (op == "applyX3") { w_applyX3(mem, (tid & 1) ? &b1 : &a1); reinterpret_cast<S4 *>(mem)->~S4(); }
      else if (op == "applyDx1") { w_applyDx1(mem, &a2); reinterpret_cast<S1 *>(mem)->~S1(); }
      else if (op == "splop") { w_splop(mem, &p1, &a2); reinterpret_cast<S3 *>(mem)->~S3(); }
      else if (op == "bilin") (void)w_bilin(&a2, &p1);
      else if (op == "scalarprod") (void)w_scalarprod(&a2, &p1);
      else if (op == "linform") (void)w_linform(&a2);
      else if (op == "generate1") { w_generate1(mem, &gen); reinterpret_cast<std::vector<S1> *>(mem)->~vector(); }
      else return;
    }
  };
  std::vector<std::thread> th;
  for (int t = 0; t < 4; t++) th.emplace_back(body, t);
  go.store(1);
  for (auto &t : th) t.join();
  std::printf("no race reported for %s\n", op.c_str());
  return 0;
}
