#!/usr/bin/env python3-vt
"""Engine B runner: lowers the wrappers against $REPO with clang, builds the native replay library, runs the harness
checks of a property in parallel worker processes and merges their results into the driver's aggregate."""
import concurrent.futures as cf
import importlib, json, os, subprocess, sys, time
HERE = os.path.dirname(os.path.abspath(__file__))
sys.path.insert(0, HERE); sys.path.insert(0, os.path.join(HERE, 'harness'))


def worker(modname, idx, ll, so, tier, outfile, params):
    from bcommon import Module, Native, EngineError
    hm = importlib.import_module(modname)
    mod = Module(open(ll).read())
    ctx = dict(mod=mod, native=Native(so), tier=tier, ll=ll)
    ctx.update(params)
    t0 = time.time()
    chk = hm.CHECKS[idx]
    try:
        R = chk(ctx)
        d = R.d
    except Exception as e:  # engine error: never a pass
        import traceback
        d = dict(case=chk.__name__, paths=0, obligations=0, discharged=0, queries=0, solver_s=0.0, slowest_s=0.0, accesses=0, violations=[], notes=[], samples=[], validation_cases=0, nontrivial=[], controls=0, controls_sat=0,
                 inconclusive=['engine error in %s: %s' % (chk.__name__, traceback.format_exc()[-1500:])])
    d['wall_s'] = time.time() - t0
    json.dump(d, open(outfile, 'w'))


def engine_b(pid, spec, tier, work, agg, repo, jobs):
    from bcommon import lower, build_native, EngineError
    t0 = time.time()
    eb = agg['engine_b']
    eb.update(dict(modules=[], checks=0, paths=0, obligations=0, discharged=0, queries=0, solver_time_s=0.0, slowest_query_s=0.0, memory_accesses_resolved=0, translator_validation_cases=0,
                   ir_functions=0, stubs=['__cxa_allocate_exception -> fresh object', 'BSplineException constructors -> record the error code, message formatting has an empty body',
                                          '__cxa_throw -> path ends with throw(code)', 'operator new -> fresh object, assumed non-null', 'operator delete -> object dead',
                                          'llvm.memcpy/memmove/memset -> byte loops', '__libc_single_threaded = 0 (atomic reference counting path)']))
    jobsl = []
    for ms in spec['irsym']:
        if tier not in ms.get('tiers', ['quick', 'thorough']): continue
        hm = importlib.import_module(ms['module'])
        src = os.path.join(HERE, 'wrappers', hm.WRAPPER)
        try:
            ll = lower(repo, src, work, ms['module']); so = build_native(repo, src, work, ms['module'])
        except EngineError as e:
            agg['errors'].append('Engine B build failed: %s' % str(e)[-2500:]); continue
        eb['modules'].append(ms['module']); eb['ir_functions'] += open(ll).read().count('\ndefine ')
        agg['functions_encoded'] += hm.FUNCTIONS
        params = dict(ms.get('params', {}).get(tier, {}))
        if ms.get('tsan_driver'):
            drv = os.path.join(work, 'tsan_driver_' + ms['module'])
            r = subprocess.run(['clang++-14', '-std=c++17', '-O1', '-g', '-fsanitize=thread', '-pthread', '-I', os.path.join(repo, 'include'), '-I', os.path.join(HERE, 'wrappers'),
                                os.path.join(HERE, 'wrappers', ms['tsan_driver']), '-o', drv], stdout=subprocess.PIPE, stderr=subprocess.STDOUT, text=True)
            if r.returncode == 0: params['tsan_driver'] = drv
            else: agg['notes'].append('ThreadSanitizer replay driver does not build: ' + r.stdout[-400:])
        names = ms.get('select', {}).get(tier)
        sel = [i for i, c in enumerate(hm.CHECKS) if names is None or c.__name__ in names] if not ms.get('checks') else ms['checks']
        if os.environ.get('VERIF_ONLY_HARNESS'):   # development aid (evidence then goes to _work/)
            import re as _re
            sel = [i for i in sel if _re.search(os.environ['VERIF_ONLY_HARNESS'], hm.CHECKS[i].__name__)]
        for i in sel:
            jobsl.append((ms['module'], i, ll, so, os.path.join(work, 'b_%s_%d.json' % (ms['module'], i)), params))
    with cf.ThreadPoolExecutor(jobs) as ex:
        futs = {}
        for (m, i, ll, so, of, params) in jobsl:
            cmd = ['python3-vt', os.path.abspath(__file__), '--worker', m, str(i), ll, so, tier, of, json.dumps(params)]
            futs[ex.submit(subprocess.run, cmd, stdout=subprocess.PIPE, stderr=subprocess.STDOUT, text=True, timeout=spec.get('b_timeout_s', {}).get(tier, 900 if tier == 'quick' else 3000))] = (m, i, of)
        for f in cf.as_completed(futs):
            m, i, of = futs[f]
            try:
                r = f.result()
            except subprocess.TimeoutExpired:
                agg['inconclusive'].append('Engine B %s check %d timed out' % (m, i)); continue
            if not os.path.exists(of):
                agg['errors'].append('Engine B %s check %d produced no result: %s' % (m, i, r.stdout[-1500:])); continue
            d = json.load(open(of))
            agg['cases'] += 1; eb['checks'] += 1
            for k in ('paths', 'obligations', 'discharged'):
                agg[k] += d[k]; eb[k] += d[k]
            agg['controls'] += d.get('controls', 0); agg['controls_sat'] += d.get('controls_sat', 0)
            agg['feas_queries'] += d['queries']; eb['queries'] += d['queries']; eb['memory_accesses_resolved'] += d.get('accesses', 0)
            agg['solver_s'] += d['solver_s']; eb['solver_time_s'] = round(eb['solver_time_s'] + d['solver_s'], 2)
            agg['slowest_s'] = max(agg['slowest_s'], d['slowest_s']); eb['slowest_query_s'] = max(eb['slowest_query_s'], round(d['slowest_s'], 3))
            eb['translator_validation_cases'] += d.get('validation_cases', 0)
            agg['nontrivial'].update(('B:' + m, x) for x in d.get('nontrivial', []))
            for s in d.get('samples', []):
                if len([x for x in agg['samples'] if x.get('engine') == 'B']) < 3: agg['samples'].insert(0, dict(engine='B', harness=m, case=d['case'], obligation=s))
            for inc in d.get('inconclusive', []): agg['inconclusive'].append('B:%s/%s: %s' % (m, d['case'], inc))
            for v in d.get('violations', []):
                v = dict(v); v['harness'] = 'B:' + m; v['case'] = d['case']; v['_h'] = None; v['engine'] = 'B'
                agg['raw_violations'].append(v)
    eb['wall_s'] = round(time.time() - t0, 1)


if __name__ == '__main__':
    if len(sys.argv) > 1 and sys.argv[1] == '--worker':
        _, _, m, i, ll, so, tier, of, params = sys.argv
        worker(m, int(i), ll, so, tier, of, json.loads(params))
    elif len(sys.argv) > 3 and sys.argv[2] == '--replay':
        rp = json.load(open(sys.argv[3]))
        print('Engine B counterexamples are replayed natively when they are found; recorded result: replayed=%s %s' % (rp.get('replayed'), rp.get('replay_msg')))
        print('model:', rp.get('model'))
        sys.exit(1 if rp.get('replayed') else 0)
