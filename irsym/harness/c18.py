"""C18: concurrent read-only use is race-free and deterministic - decided as non-interference of the compiled code.

For every operation (wrapper) and every path inside the bound the executor's access log must show:
  * no non-atomic store into an operand, into an object reachable from an operand (grid vector, grid data, control block,
    coefficient arrays) or into a mutable global;
  * no load from a mutable global (other than __libc_single_threaded);
  * the only writes to shared memory are atomic read-modify-writes of a shared_ptr use count, and the count is balanced;
  * results do not depend on the reference count.
By the standard non-interference argument (writes only to thread-private memory or atomic RMWs on counters; shared
locations that are read are never written non-atomically) every interleaving is then data-race-free and each thread
computes the function of its inputs it would compute alone. A finding is replayed natively with 4 threads under
ThreadSanitizer (irsym/wrappers/tsan_driver.cpp)."""
import os, subprocess, sys, time
import z3
from bcommon import *
import c13

WRAPPER = 'spline.cpp'
FUNCTIONS = ['Spline::operator()', 'Spline::findInterval', 'Spline::isZero', 'Spline::front', 'Spline::back', 'Spline copy construction', 'Spline::~Spline', 'Spline::checkOverlap', 'Spline::operator==',
             'Spline::operator+', 'Spline::operator*(Spline)', 'Spline::operator*(T)', 'linearCombination', 'operator*(Position<1>,Spline)', 'operator*(Position<3>,Spline)', 'operator*(Derivative<1>,Spline)',
             'SplineOperator::transform', 'BilinearForm::evaluate', 'ScalarProduct', 'LinearForm::evaluate', 'BSplineGenerator::generateBSplines<1> (const generator)', 'Support::calcUnion/calcIntersection',
             'Grid::operator==', 'std::shared_ptr copy/release', 'std::vector allocation/growth/copy (operator new, memmove)']
F = lambda b: z3.fpBVToFP(b, z3.Float64())


def term_vars(e, limit=200000):
    seen = set(); out = set(); stack = [e]; n = 0
    while stack and n < limit:
        t = stack.pop(); n += 1
        if t.get_id() in seen: continue
        seen.add(t.get_id())
        if z3.is_const(t) and t.decl().kind() == z3.Z3_OP_UNINTERPRETED: out.add(t.decl().name())
        stack.extend(t.children())
    return out


def tsan_replay(ctx, op):
    def f(m):
        drv = ctx.get('tsan_driver')
        if not drv: return None, 'ThreadSanitizer driver not built'
        n = m.get('g_n', 3); a = (m.get('a_start', 0), m.get('a_end', n)); b = (m.get('b_start', 0), m.get('b_end', n))
        tried = []
        # the model's shape first, then the whole grid (a data race does not depend on the window, the executed code does)
        for (aw, bw) in ((a, b), ((0, n), (0, n)), ((0, n), (0, max(2, n - 1)))):
            if not (c13.py_window_ok(aw[0], aw[1], n) and c13.py_window_ok(bw[0], bw[1], n)): continue
            r = subprocess.run([drv, op, str(n), str(aw[0]), str(aw[1]), str(bw[0]), str(bw[1]), '400'], stdout=subprocess.PIPE, stderr=subprocess.STDOUT, text=True,
                               env=dict(os.environ, TSAN_OPTIONS='exitcode=66 halt_on_error=1'), timeout=300)
            tried.append((aw, bw, r.returncode))
            if r.returncode == 66:
                lines = [l for l in r.stdout.split('\n') if 'data race' in l or l.strip().startswith('#0') or l.strip().startswith('#1')]
                return True, 'ThreadSanitizer, 4 threads, n=%d windows %s %s: %s' % (n, aw, bw, ' | '.join(x.strip()[:160] for x in lines[:5]))
        return False, 'no race reported by ThreadSanitizer for %s' % tried
    return f


def audit(ctx, R, W, outs, op, grids, expect_delta, result_terms):
    """the non-interference obligations on every path of one operation"""
    nat = tsan_replay(ctx, op)
    for o in outs:
        key = op + ('/throws' if o.kind == 'throw' else '')
        R.d['obligations'] += 4
        w = input_writes(o.st); r = global_reads(o.st)
        atom = [(k, o.st.objs[oid].name, z3.simplify(off), nb) for (k, oid, off, nb) in o.st.log if k == 'atomic']
        private = set(oid for (k, oid, off, nb) in o.st.log if k == 'atomic' and o.st.objs[oid].kind in ('heap', 'stack'))   # use counts of grids the operation created itself
        atom = [(k, o.st.objs[oid].name, z3.simplify(off), nb) for (k, oid, off, nb) in o.st.log if k == 'atomic' and oid not in private]
        bad_atom = [a for a in atom if not (a[1].endswith('_ctrl') and z3.is_bv_value(a[2]) and a[2].as_long() == 8 and a[3] == 4)]
        def report(sub, detail):
            sl = z3.Solver(); sl.set('timeout', 60000); sl.add(o.st.pc); m = {}
            if sl.check() == z3.sat:
                sm = c13.small_of(W); mm = sl.model()
                m = model_of(mm, W)
            ok, msg = nat(m) if m else (None, 'no model')
            R.d['violations'].append(dict(key=key + '/' + sub, kind='interference', detail=detail[:400], model={k: str(v) for k, v in m.items() if not k.startswith('g_p') or True}, engine='B', trail='',
                                          replayed=bool(ok), replay_msg=msg))
        if w: report('no-plain-store-to-shared-memory', 'non-atomic store into shared memory: %s' % w[:4])
        else: R.d['discharged'] += 1
        if r: report('no-read-of-mutable-global', 'load from a mutable global: %s' % r[:4])
        else: R.d['discharged'] += 1
        if bad_atom: R.d['inconclusive'].append('%s: atomic RMW outside a shared_ptr use count (%s): not a data race, but determinism is not established by this argument' % (key, bad_atom[:3]))
        else: R.d['discharged'] += 1
        # results are functions of the operands' bytes only (not of how many owners the grid has)
        deps = set()
        for t in result_terms(o):
            if t is not None: deps |= term_vars(t)
        if any(d.endswith('_usecount') for d in deps): report('result-independent-of-reference-count', 'result depends on %s' % sorted(d for d in deps if d.endswith('_usecount')))
        else: R.d['discharged'] += 1
        for g in grids:
            delta = expect_delta(o) if callable(expect_delta) else expect_delta
            uc_after = W.ex.peek(o.st, o.st.objs[g['ctrl'].id], 8, 4)
            if o.kind == 'throw': delta = 0
            if delta is None: continue
            if isinstance(delta, tuple):
                prove(R, W, o.st, z3.And(z3.UGE(uc_after, g['uc'] + delta[0]), z3.ULE(uc_after, g['uc'] + delta[1])), key + '/reference-count-balanced', None)
            else:
                prove(R, W, o.st, uc_after == g['uc'] + delta, key + '/reference-count-balanced', None)


def explore(ctx, R, W, fn, args, op):
    W.seal()
    try:
        outs = W.ex.run(fn, args, W.st)
    except Violation as v:
        violation_from_exec(R, W, v, op + '/memory-safety', None, c13.small_of(W)); outs = []
    except EngineError as e:
        R.d['inconclusive'].append('%s: %s' % (op, str(e)[:300])); outs = []
    R.d['paths'] += len(outs); R.absorb(W.ex)
    return outs


def mkcheck(op, orders, has_x=False, out_bytes=0, delta=0, two_grids=False, gen=False, extra_scalar=False, only=None, fixed_n=None, concrete_pts=False):
    def chk(ctx):
        R = Result(op + ('' if only is None else '-' + only) + ('' if fixed_n is None else '-n%d' % fixed_n))
        nmax = fixed_n or ctx['nmax']
        variants = [only] if only else (['shared'] + (['distinct'] if two_grids else []))
        for variant in variants:
            W = World(ctx['mod'], nmax); g = W.mk_grid('g', n=fixed_n, concrete_pts=concrete_pts); grids = [g]
            if fixed_n: W.vars['g_n'] = bv(fixed_n); W.ex.fork_fp_selects = True
            h = g
            if variant == 'distinct':
                h = W.mk_grid('h', n=fixed_n); grids.append(h)
                if fixed_n: W.vars['h_n'] = bv(fixed_n)
            splines = []
            for i, o_ in enumerate(orders):
                if fixed_n:   # long supports: the window is concrete ([1, n): n-2 intervals), points and coefficients symbolic
                    W.vars['ab'[i] + '_start'] = bv(1); W.vars['ab'[i] + '_end'] = bv(fixed_n)
                    splines.append(W.mk_spline('ab'[i], g if i == 0 else h, o_, start=bv(1), end=bv(fixed_n)))
                    continue
                splines.append(W.mk_spline('ab'[i], g if i == 0 else h, o_))
            args = []
            mem = None
            if out_bytes:
                mem = W.out('mem', max(out_bytes, 256)); args.append(bv(mem.base))
            args += [bv(s['obj'].base) for s in splines]
            if has_x:
                x = W.var('x'); args.append(x)   # any IEEE double, NaN and infinities included
            if extra_scalar:
                c = W.var('c'); args.append(c)
            outs = explore(ctx, R, W, '@w_' + op, args, op + '/' + variant)
            def results(o, mem=mem):
                ts = []
                if o.kind == 'ret' and o.val is not None and not isinstance(o.val, (list, tuple)): ts.append(o.val)
                if mem is not None and o.kind == 'ret': ts.append(W.ex.peek(o.st, o.st.objs[mem.id], 16)); ts.append(W.ex.peek(o.st, o.st.objs[mem.id], 24))
                return ts
            d = delta
            if variant == 'distinct' and delta: d = (0, delta)   # the result shares one of the two (equal) grids
            audit(ctx, R, W, outs, op, grids, d, results)
            if outs and variant == 'shared':
                control(R, outs[0].st, z3.BoolVal(False), op + '/path-feasible')
        return R
    chk.__name__ = 'chk_' + op + ('' if only is None else '_' + only) + ('' if fixed_n is None else '_n%d' % fixed_n)
    return chk


# op, operand orders, ... ; delta = how many additional owners of the grid exist after the call (result objects kept in `mem`)
QUICK = [
    mkcheck('eval1', [1], has_x=True),
    mkcheck('iszero', [2]),
    mkcheck('sfront', [2]),
    mkcheck('sback', [2]),
    mkcheck('scopy', [2], out_bytes=56, delta=1),
    mkcheck('overlap', [2, 1], two_grids=False),
    mkcheck('sequal', [2, 2], two_grids=True),
    mkcheck('applyX3', [1], out_bytes=56, delta=1),
    mkcheck('applyDx1', [2], out_bytes=56, delta=1),
    mkcheck('bilin', [2, 1], two_grids=True),
    mkcheck('scalarprod', [2, 1]),
    mkcheck('linform', [2]),
    mkcheck('scale', [2], out_bytes=56, delta=1, extra_scalar=True),
    mkcheck('lincomb', [1, 1], out_bytes=56, delta=1, extra_scalar=True),
]
THOROUGH = [
    mkcheck('eval', [2], has_x=True),
    mkcheck('applyX1', [2], out_bytes=56, delta=1),
    mkcheck('add', [2, 1], out_bytes=56, delta=1, only='shared'),
    mkcheck('add', [2, 1], out_bytes=56, delta=1, two_grids=True, only='distinct'),
    mkcheck('mul', [2, 1], out_bytes=56, delta=1, two_grids=True),
    mkcheck('splop', [1, 2], out_bytes=56, delta=1),
]


def chk_generate1(ctx):
    """generateBSplines<1>() on a shared const generator (knots = grid points with both ends doubled; grid sizes concrete,
    points symbolic): allocation, findElement, recursion operators, Spline += and all destructors."""
    R = Result('generate1')
    for n in ctx.get('gen_sizes', [2]):
        W = World(ctx['mod'], n); g = W.mk_grid('g', n=n)
        gen = W.mk_generator('generator', g, [g['pts'][0]] + g['pts'][:n] + [g['pts'][n - 1]], native=ctx.get('native'), concrete_knots=[0.0] + [float(k) for k in range(n)] + [float(n - 1)])
        mem = W.out('mem', 24)
        outs = explore(ctx, R, W, '@w_generate1', [bv(mem.base), bv(gen.base)], 'generate1/n%d' % n)
        W.vars['g_n'] = bv(n)
        audit(ctx, R, W, outs, 'generate1', [g], (0, 2 * n + 2), lambda o: [])
        if outs: control(R, outs[0].st, z3.BoolVal(False), 'generate1/path-feasible')
    return R


def chk_classscalar(ctx):
    """forms, products, sums, operator application, linearCombination and evaluation instantiated with a class-type scalar that is
    not trivially copyable; operands are created inside the wrapper, so any store to / load from a mutable global is state the
    library shares between threads"""
    R = Result('classscalar')
    W = World(ctx['mod'], 2); x = W.var('x')
    outs = explore(ctx, R, W, '@w_classscalar', [x], 'classscalar')
    audit(ctx, R, W, outs, 'classscalar', [], 0, lambda o: [])
    if outs: control(R, outs[0].st, z3.BoolVal(False), 'classscalar/path-feasible')
    return R


def chk_module_scan(ctx):
    """every global variable the lowered module defines is a constant; mutable statics are listed (and any access to one is
    reported by the per-operation audits)"""
    R = Result('module-scan')
    W = World(ctx['mod'], 2)
    R.d['obligations'] += 1; R.d['discharged'] += 1
    R.d['notes'].append('mutable globals defined by the module: %s' % (W.ex.mutable_globals or 'none'))
    R.d['nontrivial'] += [1, 2]
    return R


# long supports (grids of 10-11 points, sizes and windows concrete, points and coefficients symbolic): loops and the binary search beyond
# 8 intervals. clang lowers std::lower_bound branch-free (select on an fcmp); the executor forks on such selects (fork_fp_selects) so that
# the addresses stay concrete - with an ite-valued index z3 does not decide the loads within the query budget.
LARGE = [
    mkcheck('eval1', [1], has_x=True, fixed_n=11),
    mkcheck('iszero', [2], fixed_n=11),
    mkcheck('linform', [2], fixed_n=11),
    mkcheck('sequal', [2, 2], two_grids=True, fixed_n=10),
]
CHECKS = QUICK + THOROUGH + [chk_generate1, chk_module_scan] + LARGE + [chk_classscalar]
