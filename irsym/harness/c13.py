"""C13 (and the Support/Grid parts of C09, C10, C11, C14): the interval algebra and index conversions of the real
Support<double>, with every index, window bound and the grid size as 64-bit symbolic values."""
import ctypes, os, sys, time
import z3
from bcommon import *

SMALLN = 8
EC = dict(DIFFERING_GRIDS=0, INCONSISTENT_DATA=1, MISSING_DATA=2, INVALID_ACCESS=3, UNDETERMINED=4)
M64 = (1 << 64) - 1


def small_of(world):
    cs = []
    for k, v in world.vars.items():
        if k.endswith('_n'): cs.append(z3.ULE(v, SMALLN))
    return z3.And(cs) if cs else None


def run_paths(ctx, R, world, fn, args, key, native=None):
    """executes fn on the world's state; yields outcomes; executor-level memory violations become violations of `key`"""
    world.seal()
    try:
        outs = world.ex.run(fn, args, world.st)
    except Violation as v:
        violation_from_exec(R, world, v, key + '/memory-safety', native, small_of(world)); outs = []
    except EngineError as e:
        R.d['inconclusive'].append('%s: %s' % (key, e)); outs = []
    R.d['paths'] += len(outs); R.absorb(world.ex)
    return outs


def no_input_writes(R, o, key):
    R.d['obligations'] += 1
    w = input_writes(o.st)
    if w: R.d['violations'].append(dict(key=key + '/no-store-to-operands', kind='structure', detail='non-atomic store into an operand or global: %s' % w[:3], model={}, engine='B', replayed=True, replay_msg='store log of the executed path', trail=''))
    else: R.d['discharged'] += 1


def py_window_ok(s, e, n): return (s == 0 and e == 0) or (s < e <= n)


# ------------------------------------------------------------------------------------------------- index conversions
def chk_index_conversions(ctx):
    R = Result('index-conversions')
    nat = ctx['native']
    for fn, contained_z3, contained_py in (
            ('iifa', lambda s, e, i: z3.And(z3.UGE(i, s), z3.ULT(Z(i) + 1, Z(e))), lambda s, e, i: i >= s and i + 1 < e),
            ('rfa', lambda s, e, i: z3.And(z3.UGE(i, s), z3.ULT(i, e)), lambda s, e, i: s <= i < e)):
        W = World(ctx['mod'], 4); g = W.mk_grid('g', abstract=True); sup = W.mk_support('a', g); idx = W.var('idx'); out = W.out('out')
        def native(m, fn=fn, cpy=contained_py):
            G = nat.grid(m['g_n']); S = nat.support(G, m['a_start'], m['a_end']); o = ctypes.c_size_t(12345); ret = ctypes.c_int(-1)
            rc = nat.call(fn, ctypes.c_void_p(S), ctypes.c_size_t(m['idx']), ctypes.byref(o), ctypes.byref(ret))
            exp = cpy(m['a_start'], m['a_end'], m['idx'])
            bad = rc != 0 or (ret.value == 1) != exp or (exp and o.value != m['idx'] - m['a_start'])
            return bad, 'native %s(window [%d,%d), index %d) -> rc=%d has_value=%d value=%d; expected has_value=%d' % (fn, m['a_start'], m['a_end'], m['idx'], rc, ret.value, o.value, exp)
        for o in run_paths(ctx, R, W, '@w_' + fn, [bv(sup['obj'].base), idx, bv(out.base)], fn, native):
            if o.kind != 'ret':
                prove(R, W, o.st, z3.BoolVal(False), fn + '/never-throws', native, small_of(W)); continue
            val = W.ex.peek(o.st, o.st.objs[out.id], 0)
            c = contained_z3(sup['start'], sup['end'], idx)
            prove(R, W, o.st, z3.If(c, z3.And(o.val == 1, val == idx - sup['start']), o.val == 0), fn + '/value-iff-contained', native, small_of(W))
            control(R, o.st, z3.If(c, z3.And(o.val == 1, val == idx - sup['start'] + 1), o.val == 1), fn + '/perturbed-spec')
            no_input_writes(R, o, fn)
    # absoluteFromRelative: inverse on contained indices, refusal for every other value
    W = World(ctx['mod'], 4); g = W.mk_grid('g', abstract=True); sup = W.mk_support('a', g); idx = W.var('idx')
    def native_afr(m):
        G = nat.grid(m['g_n']); S = nat.support(G, m['a_start'], m['a_end']); o = ctypes.c_size_t(12345)
        rc = nat.call('afr', ctypes.c_void_p(S), ctypes.c_size_t(m['idx']), ctypes.byref(o))
        inside = m['idx'] < m['a_end'] - m['a_start']
        bad = (rc == 0) != inside or (inside and o.value != m['a_start'] + m['idx']) or (not inside and rc != 100 + EC['UNDETERMINED'] and rc < 100)
        return bad, 'native absoluteFromRelative(window [%d,%d), %d) -> rc=%d value=%d' % (m['a_start'], m['a_end'], m['idx'], rc, o.value)
    for o in run_paths(ctx, R, W, '@w_afr', [bv(sup['obj'].base), idx], 'afr', native_afr):
        inside = z3.ULT(idx, sup['end'] - sup['start'])
        if o.kind == 'throw': prove(R, W, o.st, z3.Not(inside), 'afr/throws-only-outside', native_afr, small_of(W))
        else: prove(R, W, o.st, z3.And(inside, o.val == sup['start'] + idx, z3.ULT(o.val, sup['end']), z3.UGE(o.val, sup['start'])), 'afr/inverse-of-relative', native_afr, small_of(W))
    return R


# ------------------------------------------------------------------------------------------------- accessors
def chk_accessors(ctx):
    R = Result('accessors')
    nat = ctx['native']
    def mk():
        W = World(ctx['mod'], 4); g = W.mk_grid('g', abstract=True); sup = W.mk_support('a', g); return W, g, sup
    def nat_ptr(fn, m, idx=None):
        G = nat.grid(m['g_n']); S = nat.support(G, m['a_start'], m['a_end']); o = ctypes.c_void_p(0)
        args = [ctypes.c_void_p(S)] + ([ctypes.c_size_t(idx)] if idx is not None else []) + [ctypes.byref(o)]
        rc = nat.call(fn, *args); base = nat.lib.n_grid_data(G)
        return rc, (None if rc != 0 else ((o.value or 0) - base))
    # at(): checked access
    W, g, sup = mk(); idx = W.var('idx')
    def native_at(m):
        rc, off = nat_ptr('at', m, m['idx']); inside = m['idx'] < m['a_end'] - m['a_start']
        bad = (rc == 0) != inside or (inside and off != 8 * (m['a_start'] + m['idx'])) or (not inside and rc != 100 + EC['INVALID_ACCESS'])
        return bad, 'native at(window [%d,%d), %d) -> rc=%d byte offset into grid=%s' % (m['a_start'], m['a_end'], m['idx'], rc, off)
    for o in run_paths(ctx, R, W, '@w_at', [bv(sup['obj'].base), idx], 'at', native_at):
        inside = z3.ULT(idx, sup['end'] - sup['start'])
        if o.kind == 'throw': prove(R, W, o.st, z3.And(z3.Not(inside), o.val[0] == EC['INVALID_ACCESS']), 'at/throws-for-every-index-outside', native_at, small_of(W))
        else:
            prove(R, W, o.st, z3.And(inside, o.val == g['dbase'] + 8 * (sup['start'] + idx)), 'at/returns-the-indexed-point', native_at, small_of(W))
            control(R, o.st, z3.And(inside, o.val == g['dbase'] + 8 * (sup['start'] + idx + 1)), 'at/perturbed-spec')
    # operator[] inside the view (documented precondition)
    W, g, sup = mk(); idx = W.var('idx'); W.assume(z3.ULT(idx, sup['end'] - sup['start']))
    for o in run_paths(ctx, R, W, '@w_index', [bv(sup['obj'].base), idx], 'index'):
        prove(R, W, o.st, z3.And(o.kind == 'ret', o.val == g['dbase'] + 8 * (sup['start'] + idx)) if o.kind == 'ret' else z3.BoolVal(False), 'index/addresses-the-point', None, small_of(W))
    # front/back/begin/end
    for fn, off in (('front', lambda s, e: s), ('back', lambda s, e: e - 1), ('begin', lambda s, e: s), ('end', lambda s, e: e)):
        W, g, sup = mk()
        def native_fb(m, fn=fn, off=off):
            rc, o = nat_ptr(fn, m); empty = m['a_start'] == m['a_end']
            if fn in ('front', 'back'):
                bad = (rc == 0) == empty or (not empty and o != 8 * off(m['a_start'], m['a_end'])) or (empty and rc != 100 + EC['INVALID_ACCESS'])
            else:
                bad = rc != 0 or o != 8 * off(m['a_start'], m['a_end'])
            return bad, 'native %s(window [%d,%d)) -> rc=%d offset=%s' % (fn, m['a_start'], m['a_end'], rc, o)
        for o in run_paths(ctx, R, W, '@w_' + fn, [bv(sup['obj'].base)], fn, native_fb):
            empty = sup['start'] == sup['end']
            if o.kind == 'throw':
                prove(R, W, o.st, z3.And(empty, o.val[0] == EC['INVALID_ACCESS']) if fn in ('front', 'back') else z3.BoolVal(False), fn + '/throws-only-when-empty', native_fb, small_of(W))
            else:
                claim = o.val == g['dbase'] + 8 * off(sup['start'], sup['end'])
                if fn in ('front', 'back'): claim = z3.And(z3.Not(empty), claim)
                prove(R, W, o.st, claim, fn + '/addresses-the-window-end', native_fb, small_of(W))
            no_input_writes(R, o, fn)
    # size / numberOfIntervals / empty / containsIntervals / getters describe the same window
    for fn, spec in (('size', lambda s, e: e - s), ('nint', lambda s, e: z3.If(e - s == 0, bv(0), e - s - 1)), ('empty', lambda s, e: z3.If(s == e, bv(1), bv(0))),
                     ('contains_iv', lambda s, e: z3.If(z3.UGT(e - s, 1), bv(1), bv(0))), ('start', lambda s, e: s), ('endidx', lambda s, e: e)):
        W, g, sup = mk()
        for o in run_paths(ctx, R, W, '@w_' + fn, [bv(sup['obj'].base)], fn):
            v = o.val if o.kind == 'ret' else None
            if v is None: prove(R, W, o.st, z3.BoolVal(False), fn + '/never-throws'); continue
            if v.size() < 64: v = z3.ZeroExt(64 - v.size(), v)
            prove(R, W, o.st, v == spec(sup['start'], sup['end']), fn + '/describes-the-window', None, small_of(W))
    # Grid::at
    W = World(ctx['mod'], 4); g = W.mk_grid('g', abstract=True); go = W.mk_grid_obj('gobj', g); idx = W.var('idx')
    def native_gat(m):
        G = nat.grid(m['g_n']); o = ctypes.c_void_p(0); rc = nat.call('gat', ctypes.c_void_p(G), ctypes.c_size_t(m['idx']), ctypes.byref(o))
        inside = m['idx'] < m['g_n']
        bad = (rc == 0) != inside or (inside and (o.value - nat.lib.n_grid_data(G)) != 8 * m['idx'])
        return bad, 'native Grid::at(n=%d, %d) -> rc=%d' % (m['g_n'], m['idx'], rc)
    for o in run_paths(ctx, R, W, '@w_gat', [bv(go.base), idx], 'grid-at', native_gat):
        inside = z3.ULT(idx, g['n'])
        if o.kind == 'throw': prove(R, W, o.st, z3.And(z3.Not(inside), o.val[0] == EC['INVALID_ACCESS']), 'grid-at/throws-for-every-index-outside', native_gat, small_of(W))
        else: prove(R, W, o.st, z3.And(inside, o.val == g['dbase'] + 8 * idx), 'grid-at/returns-the-point', native_gat, small_of(W))
    return R


# ------------------------------------------------------------------------------------------------- algebra
def union_spec(as_, ae, bs, be):
    aE, bE = as_ == ae, bs == be
    rs = z3.If(z3.And(aE, bE), bv(0), z3.If(aE, bs, z3.If(bE, as_, umin(as_, bs))))
    re_ = z3.If(z3.And(aE, bE), bv(0), z3.If(aE, be, z3.If(bE, ae, umax(ae, be))))
    return rs, re_
def inter_spec(as_, ae, bs, be):
    ns, ne = umax(as_, bs), umin(ae, be)
    return z3.If(z3.UGE(ns, ne), bv(0), ns), z3.If(z3.UGE(ns, ne), bv(0), ne)
def py_union(a, b):
    if a[0] == a[1] and b[0] == b[1]: return (0, 0)
    if a[0] == a[1]: return b
    if b[0] == b[1]: return a
    return (min(a[0], b[0]), max(a[1], b[1]))
def py_inter(a, b):
    s, e = max(a[0], b[0]), min(a[1], b[1])
    return (0, 0) if s >= e else (s, e)


def chk_algebra(ctx):
    R = Result('algebra')
    nat = ctx['native']
    def native2(fn, pyf, alias=False):
        def f(m):
            G = nat.grid(m['g_n']); A = nat.support(G, m['a_start'], m['a_end']); B = A if alias else nat.support(G, m['b_start'], m['b_end'])
            os_, oe = ctypes.c_size_t(777), ctypes.c_size_t(777)
            rc = nat.call(fn, ctypes.c_void_p(A), ctypes.c_void_p(B), ctypes.byref(os_), ctypes.byref(oe))
            a = (m['a_start'], m['a_end']); b = a if alias else (m['b_start'], m['b_end'])
            exp = pyf(a, b)
            return rc != 0 or (os_.value, oe.value) != exp, 'native %s(%s, %s) -> rc=%d [%d,%d); expected [%d,%d)' % (fn, a, b, rc, os_.value, oe.value, exp[0], exp[1])
        return f
    for fn, spec, pyf in (('union', union_spec, py_union), ('inter', inter_spec, py_inter)):
        for variant in ('ab', 'ba', 'aa'):
            W = World(ctx['mod'], 4); g = W.mk_grid('g', abstract=True); a = W.mk_support('a', g); b = W.mk_support('b', g) if variant != 'aa' else a
            os_, oe = W.out('os'), W.out('oe')
            x, y = (a, b) if variant != 'ba' else (b, a)
            nf = native2(fn, pyf, variant == 'aa') if variant != 'ba' else (lambda m, fn=fn, pyf=pyf: native2(fn, pyf)(dict(m, a_start=m['b_start'], a_end=m['b_end'], b_start=m['a_start'], b_end=m['a_end'])))
            for o in run_paths(ctx, R, W, '@w_' + fn, [bv(x['obj'].base), bv(y['obj'].base), bv(os_.base), bv(oe.base)], fn + '/' + variant, nf):
                if o.kind != 'ret':
                    prove(R, W, o.st, z3.BoolVal(False), fn + '/' + variant + '/same-grid-never-throws', nf, small_of(W)); continue
                rs, re_ = W.ex.peek(o.st, o.st.objs[os_.id], 0), W.ex.peek(o.st, o.st.objs[oe.id], 0)
                # the specification is written once, for (a, b): the reversed call must give the same window => commutative;
                # the aliased call must give a itself => idempotent
                es, ee = spec(a['start'], a['end'], b['start'], b['end'])
                name = {'ab': 'is-hull-or-common-points', 'ba': 'commutative', 'aa': 'idempotent'}[variant]
                prove(R, W, o.st, z3.And(rs == es, re_ == ee), '%s/%s' % (fn, name), nf, small_of(W))
                if variant == 'ab': control(R, o.st, z3.And(rs == es, re_ == ee + 1), fn + '/perturbed-spec')
                if variant == 'aa': prove(R, W, o.st, z3.And(rs == z3.If(a['start'] == a['end'], bv(0), a['start']), re_ == z3.If(a['start'] == a['end'], bv(0), a['end'])), fn + '/idempotent-returns-operand', nf, small_of(W))
                prove(R, W, o.st, valid_window(rs, re_, g['n']), fn + '/' + variant + '/result-is-a-valid-window', nf, small_of(W))
                prove(R, W, o.st, W.ex.peek(o.st, o.st.objs[g['ctrl'].id], 8, 4) == g['uc'], fn + '/' + variant + '/reference-count-balanced', None, small_of(W))
                no_input_writes(R, o, fn + '/' + variant)
    # associativity: two chained real calls each way, both must equal the three-way hull / meet
    def native3(fn, pyf, left):
        def f(m):
            G = nat.grid(m['g_n']); Ss = [nat.support(G, m[x + '_start'], m[x + '_end']) for x in 'abc']
            os_, oe = ctypes.c_size_t(777), ctypes.c_size_t(777)
            rc = nat.call(fn, *[ctypes.c_void_p(p) for p in Ss], ctypes.byref(os_), ctypes.byref(oe))
            w = [(m[x + '_start'], m[x + '_end']) for x in 'abc']
            exp = pyf(pyf(w[0], w[1]), w[2]); exp2 = pyf(w[0], pyf(w[1], w[2]))
            return rc != 0 or (os_.value, oe.value) != exp or exp != exp2, 'native %s%s -> rc=%d [%d,%d); expected %s' % (fn, w, rc, os_.value, oe.value, exp)
        return f
    for base, spec, pyf in (('union3', union_spec, py_union), ('inter3', inter_spec, py_inter)):
        for side in ('l', 'r'):
            W = World(ctx['mod'], 4); g = W.mk_grid('g', abstract=True); a, b, c = W.mk_support('a', g), W.mk_support('b', g), W.mk_support('c', g)
            os_, oe = W.out('os'), W.out('oe'); nf = native3(base + side, pyf, side == 'l')
            for o in run_paths(ctx, R, W, '@w_' + base + side, [bv(a['obj'].base), bv(b['obj'].base), bv(c['obj'].base), bv(os_.base), bv(oe.base)], base + side, nf):
                if o.kind != 'ret':
                    prove(R, W, o.st, z3.BoolVal(False), base + side + '/never-throws', nf, small_of(W)); continue
                rs, re_ = W.ex.peek(o.st, o.st.objs[os_.id], 0), W.ex.peek(o.st, o.st.objs[oe.id], 0)
                # one fixed bracketing of the specification for both call orders => associative
                ms, me = spec(a['start'], a['end'], b['start'], b['end']); es, ee = spec(ms, me, c['start'], c['end'])
                prove(R, W, o.st, z3.And(rs == es, re_ == ee), '%s/associative-%s' % (base, 'left' if side == 'l' else 'right'), nf, small_of(W))
                prove(R, W, o.st, W.ex.peek(o.st, o.st.objs[g['ctrl'].id], 8, 4) == g['uc'], base + side + '/reference-count-balanced', None, small_of(W))
    return R


# ------------------------------------------------------------------------------------------------- equality
def chk_equality(ctx):
    R = Result('equality')
    nat = ctx['native']
    F = lambda b: z3.fpBVToFP(b, z3.Float64())
    # (i) both supports on the same shared grid storage: all n up to 2^60
    for fn in ('eq', 'ne', 'samegrid'):
        W = World(ctx['mod'], 4); g = W.mk_grid('g', abstract=True); a = W.mk_support('a', g); b = W.mk_support('b', g)
        def native_eq(m, fn=fn):
            G = nat.grid(m['g_n']); A = nat.support(G, m['a_start'], m['a_end']); B = nat.support(G, m['b_start'], m['b_end']); o = ctypes.c_size_t(7)
            rc = nat.call(fn, ctypes.c_void_p(A), ctypes.c_void_p(B), ctypes.byref(o))
            same = (m['a_start'], m['a_end']) == (m['b_start'], m['b_end']) or (m['a_start'] == m['a_end'] and m['b_start'] == m['b_end'])
            exp = {'eq': same, 'ne': not same, 'samegrid': True}[fn]
            return rc != 0 or bool(o.value) != exp, 'native %s([%d,%d), [%d,%d)) on one grid -> %d, expected %d' % (fn, m['a_start'], m['a_end'], m['b_start'], m['b_end'], o.value, exp)
        for o in run_paths(ctx, R, W, '@w_' + fn, [bv(a['obj'].base), bv(b['obj'].base)], fn + '/shared-grid', native_eq):
            if o.kind != 'ret': prove(R, W, o.st, z3.BoolVal(False), fn + '/never-throws', native_eq, small_of(W)); continue
            same = z3.Or(z3.And(a['start'] == b['start'], a['end'] == b['end']), z3.And(a['start'] == a['end'], b['start'] == b['end']))
            exp = {'eq': same, 'ne': z3.Not(same), 'samegrid': z3.BoolVal(True)}[fn]
            prove(R, W, o.st, (o.val == 1) == exp, fn + '/shared-grid/windows-coincide-or-both-empty', native_eq, small_of(W))
            prove(R, W, o.st, z3.Or(o.val == 0, o.val == 1), fn + '/shared-grid/boolean', None)
            no_input_writes(R, o, fn)
    # (ii) two distinct grid vectors with symbolic sizes (<= nmax) and symbolic IEEE points: the real element loop runs
    nmax = ctx['nmax_data']
    for fn in ('eq', 'ne', 'samegrid'):
        W = World(ctx['mod'], nmax); g = W.mk_grid('g'); h = W.mk_grid('h'); a = W.mk_support('a', g); b = W.mk_support('b', h)
        def native_eq2(m, fn=fn):
            import struct
            d = lambda x: struct.unpack('<d', struct.pack('<Q', x))[0]
            G = nat.grid(m['g_n'], [d(m['g_p%d' % k]) for k in range(m['g_n'])]); H = nat.grid(m['h_n'], [d(m['h_p%d' % k]) for k in range(m['h_n'])])
            A = nat.support(G, m['a_start'], m['a_end']); B = nat.support(H, m['b_start'], m['b_end']); o = ctypes.c_size_t(7)
            rc = nat.call(fn, ctypes.c_void_p(A), ctypes.c_void_p(B), ctypes.byref(o))
            sg = m['g_n'] == m['h_n'] and all(d(m['g_p%d' % k]) == d(m['h_p%d' % k]) for k in range(m['g_n']))
            same = sg and ((m['a_start'], m['a_end']) == (m['b_start'], m['b_end']) or (m['a_start'] == m['a_end'] and m['b_start'] == m['b_end']))
            exp = {'eq': same, 'ne': not same, 'samegrid': sg}[fn]
            return rc != 0 or bool(o.value) != exp, 'native %s on two grids (sizes %d,%d; equal=%s) windows [%d,%d),[%d,%d) -> %d, expected %d' % (fn, m['g_n'], m['h_n'], sg, m['a_start'], m['a_end'], m['b_start'], m['b_end'], o.value, exp)
        for o in run_paths(ctx, R, W, '@w_' + fn, [bv(a['obj'].base), bv(b['obj'].base)], fn + '/distinct-grids', native_eq2):
            if o.kind != 'ret': prove(R, W, o.st, z3.BoolVal(False), fn + '/never-throws', native_eq2); continue
            sg = z3.And(g['n'] == h['n'], *[z3.Implies(z3.UGT(g['n'], k), z3.fpEQ(F(g['pts'][k]), F(h['pts'][k]))) for k in range(nmax)])
            same = z3.And(sg, z3.Or(z3.And(a['start'] == b['start'], a['end'] == b['end']), z3.And(a['start'] == a['end'], b['start'] == b['end'])))
            exp = {'eq': same, 'ne': z3.Not(same), 'samegrid': sg}[fn]
            prove(R, W, o.st, (o.val == 1) == exp, fn + '/distinct-grids/logically-equal-grids-and-same-window', native_eq2)
            no_input_writes(R, o, fn + '/distinct-grids')
    return R


# ------------------------------------------------------------------------------------------------- construction, copies, moves (C10/C11)
def chk_lifecycle(ctx):
    R = Result('lifecycle')
    nat = ctx['native']
    # constructor: accepts exactly the valid windows, for all 64-bit pairs and all grid sizes
    W = World(ctx['mod'], 4); g = W.mk_grid('g', abstract=True); go = W.mk_grid_obj('gobj', g); s, e = W.var('s'), W.var('e'); mem = W.out('mem', W.sup_size)
    def native_ctor(m):
        G = nat.grid(m['g_n']); os_, oe = ctypes.c_size_t(7), ctypes.c_size_t(7)
        rc = nat.call('ctor', ctypes.c_void_p(G), ctypes.c_size_t(m['s']), ctypes.c_size_t(m['e']), ctypes.byref(os_), ctypes.byref(oe))
        ok = py_window_ok(m['s'], m['e'], m['g_n'])
        return (rc == 0) != ok or (ok and (os_.value, oe.value) != (m['s'], m['e'])) or (not ok and rc < 100), 'native Support(grid of %d, %d, %d) -> rc=%d' % (m['g_n'], m['s'], m['e'], rc)
    for o in run_paths(ctx, R, W, '@w_ctor', [bv(mem.base), bv(go.base), s, e], 'ctor', native_ctor):
        ok = valid_window(s, e, g['n'])
        if o.kind == 'throw':
            prove(R, W, o.st, z3.And(z3.Not(ok), o.val[0] == EC['INCONSISTENT_DATA']), 'ctor/refuses-only-invalid-windows', native_ctor, small_of(W))
            prove(R, W, o.st, W.ex.peek(o.st, o.st.objs[g['ctrl'].id], 8, 4) == g['uc'], 'ctor/refusal-releases-the-grid', None, small_of(W))
        else:
            ss, ee = W.read_support(o.st, mem.id)
            prove(R, W, o.st, z3.And(ok, ss == s, ee == e), 'ctor/accepts-only-valid-windows', native_ctor, small_of(W))
            prove(R, W, o.st, W.ex.peek(o.st, o.st.objs[g['ctrl'].id], 8, 4) == g['uc'] + 1, 'ctor/shares-the-grid', None, small_of(W))
        no_input_writes(R, o, 'ctor')
    # copy / move construction, createEmpty / createWholeGrid
    for fn in ('copy', 'move', 'create_empty', 'create_whole'):
        W = World(ctx['mod'], 4); g = W.mk_grid('g', abstract=True); a = W.mk_support('a', g); go = W.mk_grid_obj('gobj', g); mem = W.out('mem', W.sup_size)
        if fn == 'move': W.set_kind(a, 'inout')
        arg = bv(a['obj'].base) if fn in ('copy', 'move') else bv(go.base)
        def native_mv(m):
            G = nat.grid(m['g_n']); A = nat.support(G, m['a_start'], m['a_end']); v = [ctypes.c_size_t(7) for _ in range(4)]
            rc = nat.call('move', ctypes.c_void_p(A), *[ctypes.byref(x) for x in v])
            return rc != 0 or (v[0].value, v[1].value) != (m['a_start'], m['a_end']) or not py_window_ok(v[2].value, v[3].value, m['g_n']) or v[3].value - v[2].value > 1, 'native move construction from [%d,%d) -> target [%d,%d) source [%d,%d)' % (m['a_start'], m['a_end'], v[0].value, v[1].value, v[2].value, v[3].value)
        nf = native_mv if fn == 'move' else None
        for o in run_paths(ctx, R, W, '@w_' + fn, [bv(mem.base), arg], fn, nf):
            if o.kind != 'ret': prove(R, W, o.st, z3.BoolVal(False), fn + '/never-throws', nf, small_of(W)); continue
            ss, ee = W.read_support(o.st, mem.id)
            exp = {'copy': (a['start'], a['end']), 'move': (a['start'], a['end']), 'create_empty': (bv(0), bv(0)), 'create_whole': (bv(0), g['n'])}[fn]
            prove(R, W, o.st, z3.And(ss == exp[0], ee == exp[1], valid_window(ss, ee, g['n'])), fn + '/result-valid-and-as-specified', nf, small_of(W))
            prove(R, W, o.st, W.ex.peek(o.st, o.st.objs[g['ctrl'].id], 8, 4) == g['uc'] + 1, fn + '/shares-the-grid', None, small_of(W))
            if fn == 'move':
                s2, e2 = W.read_support(o.st, a['obj'].id)
                prove(R, W, o.st, z3.And(valid_window(s2, e2, g['n']), z3.ULE(e2 - s2, 1)), 'move/source-becomes-interval-free-on-the-same-grid', nf, small_of(W))
            else:
                no_input_writes(R, o, fn)
    # move assignment (distinct objects, and self-move) and copy assignment
    for fn, alias in (('move_assign', False), ('move_assign', True), ('copy_assign', False), ('copy_assign', True)):
        W = World(ctx['mod'], 4); g = W.mk_grid('g', abstract=True); d = W.mk_support('d', g); a = d if alias else W.mk_support('a', g)
        W.set_kind(d, 'inout')
        if fn == 'move_assign': W.set_kind(a, 'inout')
        key = fn + ('/self' if alias else '')
        def native_ma(m, alias=alias):
            G = nat.grid(m['g_n']); D = nat.support(G, m['d_start'], m['d_end']); A = D if alias else nat.support(G, m['a_start'], m['a_end']); v = [ctypes.c_size_t(7) for _ in range(4)]
            rc = nat.call('move_assign', ctypes.c_void_p(D), ctypes.c_void_p(A), *[ctypes.byref(x) for x in v])
            src = (m['d_start'], m['d_end']) if alias else (m['a_start'], m['a_end'])
            bad = rc != 0 or not py_window_ok(v[0].value, v[1].value, m['g_n']) or not py_window_ok(v[2].value, v[3].value, m['g_n'])
            if not alias: bad = bad or (v[0].value, v[1].value) != src or v[3].value - v[2].value > 1
            return bad, 'native move assignment (self=%s) -> target [%d,%d) source [%d,%d)' % (alias, v[0].value, v[1].value, v[2].value, v[3].value)
        nf = native_ma if fn == 'move_assign' else None
        for o in run_paths(ctx, R, W, '@w_' + fn, [bv(d['obj'].base), bv(a['obj'].base)], key, nf):
            if o.kind != 'ret': prove(R, W, o.st, z3.BoolVal(False), key + '/never-throws', nf, small_of(W)); continue
            ss, ee = W.read_support(o.st, d['obj'].id)
            prove(R, W, o.st, valid_window(ss, ee, g['n']), key + '/target-valid', nf, small_of(W))
            prove(R, W, o.st, W.ex.peek(o.st, o.st.objs[g['ctrl'].id], 8, 4) == g['uc'], key + '/reference-count-balanced', None, small_of(W))
            if not alias:
                prove(R, W, o.st, z3.And(ss == a['start'], ee == a['end']), key + '/target-takes-the-window', nf, small_of(W))
                s2, e2 = W.read_support(o.st, a['obj'].id)
                if fn == 'move_assign': prove(R, W, o.st, z3.And(valid_window(s2, e2, g['n']), z3.ULE(e2 - s2, 1)), key + '/source-becomes-interval-free-on-the-same-grid', nf, small_of(W))
                else: prove(R, W, o.st, z3.And(s2 == a['start'], e2 == a['end']), key + '/source-unchanged', None, small_of(W))
            elif fn == 'copy_assign':
                prove(R, W, o.st, z3.And(ss == d['start'], ee == d['end']), key + '/self-copy-keeps-the-window', None, small_of(W))
    return R


# ------------------------------------------------------------------------------------------------- Grid with data
def asan_replay(ctx, args):
    """runs irsym/wrappers/asan_driver.cpp (the same wrappers under AddressSanitizer); returns the report head if ASan fires"""
    import subprocess
    work = os.path.dirname(ctx['ll']); drv = os.path.join(work, 'asan_driver')
    if not os.path.exists(drv):
        here = os.path.join(os.path.dirname(os.path.dirname(os.path.abspath(__file__))), 'wrappers')
        r = subprocess.run(['g++', '-std=c++17', '-O1', '-g', '-fsanitize=address', '-fno-omit-frame-pointer', '-I', os.path.join(os.environ.get('VERIF_REPO', '/repo'), 'include'), '-I', here,
                            os.path.join(here, 'asan_driver.cpp'), '-o', drv], stdout=subprocess.PIPE, stderr=subprocess.STDOUT, text=True)
        if r.returncode != 0: return None
    r = subprocess.run([drv] + args, stdout=subprocess.PIPE, stderr=subprocess.STDOUT, text=True, env=dict(os.environ, ASAN_OPTIONS='exitcode=66:detect_leaks=0'), timeout=120)
    if r.returncode == 66:
        head = [l.strip() for l in r.stdout.split('\n') if 'ERROR: AddressSanitizer' in l or l.strip().startswith('#0') or l.strip().startswith('#1')]
        return 'AddressSanitizer: ' + ' | '.join(h[:140] for h in head[:3])
    return None


def chk_grid_data(ctx):
    R = Result('grid-data')
    _grid_data(ctx, R, ctx['nmax_data'], '')
    if ctx.get('nmax_large'): _grid_data(ctx, R, ctx['nmax_large'], '/large')   # long grids: element loops and the binary search beyond 8 points
    return R


def _grid_data(ctx, R, nmax, sfx):
    nat = ctx['native']
    F = lambda b: z3.fpBVToFP(b, z3.Float64())
    import struct
    d = lambda x: struct.unpack('<d', struct.pack('<Q', x))[0]
    # findElement: index of x if present (binary search through real loads of grid data), refusal otherwise
    W = World(ctx['mod'], nmax, max_visits=nmax + 6); g = W.mk_grid('g', n=(nmax if sfx else None)); go = W.mk_grid_obj('gobj', g); x = W.var('x')
    W.assume(z3.Not(z3.fpIsNaN(F(x))))
    if sfx: W.vars['g_n'] = bv(nmax); W.ex.fork_fp_selects = True
    def native_find(m):
        G = nat.grid(m['g_n'], [d(m['g_p%d' % k]) for k in range(m['g_n'])]); o = ctypes.c_size_t(77)
        nat.lib.n_gfind.argtypes = [ctypes.c_void_p, ctypes.c_double, ctypes.POINTER(ctypes.c_size_t)]
        rc = nat.lib.n_gfind(G, d(m['x']), ctypes.byref(o))
        pts = [d(m['g_p%d' % k]) for k in range(m['g_n'])]; exp = [k for k, p in enumerate(pts) if p == d(m['x'])]
        bad = (rc == 0) != bool(exp) or (exp and o.value != exp[0])
        msg = 'native findElement(%s, %r) -> rc=%d index=%d' % (pts, d(m['x']), rc, o.value)
        if not bad:
            # no functional symptom: a memory-safety finding (e.g. a read one past the data) is replayed under AddressSanitizer
            a = asan_replay(ctx, ['gfind', str(m['g_n'])] + [hex(m['g_p%d' % k]) for k in range(m['g_n'])] + [hex(m['x'])])
            if a: return True, msg + ' | ' + a
        return bad, msg
    for o in run_paths(ctx, R, W, '@w_gfind', [bv(go.base), x], 'find-element' + sfx, native_find):
        present = z3.Or([z3.And(z3.UGT(g['n'], k), z3.fpEQ(F(g['pts'][k]), F(x))) for k in range(nmax)])
        if o.kind == 'throw': prove(R, W, o.st, z3.And(z3.Not(present), o.val[0] == EC['INCONSISTENT_DATA']), 'find-element' + sfx + '/refuses-only-absent-values', native_find)
        else: prove(R, W, o.st, z3.Or([z3.And(z3.UGT(g['n'], k), o.val == k, z3.fpEQ(F(g['pts'][k]), F(x))) for k in range(nmax)]), 'find-element' + sfx + '/returns-the-index-of-x', native_find)
        no_input_writes(R, o, 'find-element' + sfx)
    # Grid::operator== on two vectors
    W = World(ctx['mod'], nmax, max_visits=nmax + 6); g = W.mk_grid('g', n=(nmax if sfx else None)); h = W.mk_grid('h', n=(nmax if sfx else None)); go = W.mk_grid_obj('gobj', g); ho = W.mk_grid_obj('hobj', h)
    if sfx: W.vars['g_n'] = bv(nmax); W.vars['h_n'] = bv(nmax)
    def native_geq(m):
        G = nat.grid(m['g_n'], [d(m['g_p%d' % k]) for k in range(m['g_n'])]); H = nat.grid(m['h_n'], [d(m['h_p%d' % k]) for k in range(m['h_n'])]); o = ctypes.c_size_t(7)
        nat.lib.n_geq.argtypes = [ctypes.c_void_p, ctypes.c_void_p, ctypes.POINTER(ctypes.c_size_t)]
        rc = nat.lib.n_geq(G, H, ctypes.byref(o))
        exp = m['g_n'] == m['h_n'] and all(d(m['g_p%d' % k]) == d(m['h_p%d' % k]) for k in range(m['g_n']))
        return rc != 0 or bool(o.value) != exp, 'native Grid== on sizes %d,%d (equal=%s) -> rc=%d value=%d' % (m['g_n'], m['h_n'], exp, rc, o.value)
    for o in run_paths(ctx, R, W, '@w_geq', [bv(go.base), bv(ho.base)], 'grid-equality' + sfx, native_geq):
        if o.kind != 'ret': prove(R, W, o.st, z3.BoolVal(False), 'grid-equality' + sfx + '/never-throws', native_geq); continue
        sg = z3.And(g['n'] == h['n'], *[z3.Implies(z3.UGT(g['n'], k), z3.fpEQ(F(g['pts'][k]), F(h['pts'][k]))) for k in range(nmax)])
        prove(R, W, o.st, (o.val == 1) == sg, 'grid-equality' + sfx + '/iff-same-points', native_geq)
        no_input_writes(R, o, 'grid-equality' + sfx)


CHECKS = [chk_index_conversions, chk_accessors, chk_algebra, chk_equality, chk_lifecycle, chk_grid_data]
WRAPPER = 'support.cpp'
FUNCTIONS = ['Support::relativeFromAbsolute', 'Support::intervalIndexFromAbsolute', 'Support::absoluteFromRelative', 'Support::at', 'Support::operator[]', 'Support::front', 'Support::back',
             'Support::begin', 'Support::end', 'Support::size', 'Support::numberOfIntervals', 'Support::empty', 'Support::containsIntervals', 'Support::getStartIndex', 'Support::getEndIndex',
             'Support::calcUnion', 'Support::calcIntersection', 'Support::operator==', 'Support::operator!=', 'Support::hasSameGrid', 'Support::Support(grid,start,end)', 'Support copy/move construction',
             'Support move/copy assignment', 'Support::createEmpty', 'Support::createWholeGrid', 'Support::~Support', 'Grid::at', 'Grid::size', 'Grid::operator==', 'Grid::findElement', 'Grid::~Grid',
             'std::shared_ptr copy/release (atomic reference count)', 'BSplineException construction/throw (summarised)']


# ------------------------------------------------------------------------------------------------- translator validation
def validate(ctx):
    """Concrete inputs through both the native build and the IR executor (all-concrete run): any difference is an engine error."""
    R = Result('translator-validation')
    nat = ctx['native']
    cases = 0
    idxs = [0, 1, 2, 3, 4, 5, 1 << 63, M64, M64 - 1]
    wins = [(0, 0), (0, 1), (0, 2), (1, 3), (2, 4), (0, 4), (3, 4), (1, 2)]
    n = 4
    def world(ws):
        W = World(ctx['mod'], 4); g = W.mk_grid('g', n=n, abstract=True); sups = [W.mk_support('s%d' % i, g, bv(w[0]), bv(w[1])) for i, w in enumerate(ws)]; return W, g, sups
    G = nat.grid(n)
    def diff(what, a, b):
        R.d['inconclusive'].append('translator validation: %s: IR executor %s, native %s' % (what, a, b))
    for w in wins:
        S = nat.support(G, *w)
        for i in idxs:
            for fn in ('iifa', 'rfa'):
                W, g, (s,) = world([w]); out = W.out('out')
                (o,) = W.ex.run('@w_' + fn, [bv(s['obj'].base), bv(i), bv(out.base)], W.st)
                ir = (z3.simplify(o.val).as_long(), z3.simplify(W.ex.peek(o.st, o.st.objs[out.id], 0)).as_long() if z3.simplify(o.val).as_long() else None)
                ov = ctypes.c_size_t(0); ret = ctypes.c_int(-1); nat.call(fn, ctypes.c_void_p(S), ctypes.c_size_t(i), ctypes.byref(ov), ctypes.byref(ret))
                nv = (ret.value, ov.value if ret.value else None); cases += 1
                if ir != nv: diff('%s(%s,%d)' % (fn, w, i), ir, nv)
            for fn in ('afr', 'at'):
                W, g, (s,) = world([w])
                (o,) = W.ex.run('@w_' + fn, [bv(s['obj'].base), bv(i)], W.st)
                if fn == 'afr':
                    ov = ctypes.c_size_t(0); rc = nat.call('afr', ctypes.c_void_p(S), ctypes.c_size_t(i), ctypes.byref(ov)); nv = ('ret', ov.value) if rc == 0 else ('throw', rc - 100)
                    ir = ('ret', z3.simplify(o.val).as_long()) if o.kind == 'ret' else ('throw', z3.simplify(o.val[0]).as_long())
                else:
                    ov = ctypes.c_void_p(0); rc = nat.call('at', ctypes.c_void_p(S), ctypes.c_size_t(i), ctypes.byref(ov)); nv = ('ret', ov.value - nat.lib.n_grid_data(G)) if rc == 0 else ('throw', rc - 100)
                    ir = ('ret', z3.simplify(o.val - g['dbase']).as_long()) if o.kind == 'ret' else ('throw', z3.simplify(o.val[0]).as_long())
                cases += 1
                if ir != nv: diff('%s(%s,%d)' % (fn, w, i), ir, nv)
        for w2 in wins:
            S2 = nat.support(G, *w2)
            for fn in ('union', 'inter'):
                W, g, (a, b) = world([w, w2]); os_, oe = W.out('os'), W.out('oe')
                (o,) = W.ex.run('@w_' + fn, [bv(a['obj'].base), bv(b['obj'].base), bv(os_.base), bv(oe.base)], W.st)
                ir = (z3.simplify(W.ex.peek(o.st, o.st.objs[os_.id], 0)).as_long(), z3.simplify(W.ex.peek(o.st, o.st.objs[oe.id], 0)).as_long())
                x, y = ctypes.c_size_t(0), ctypes.c_size_t(0); nat.call(fn, ctypes.c_void_p(S), ctypes.c_void_p(S2), ctypes.byref(x), ctypes.byref(y)); cases += 1
                if ir != (x.value, y.value): diff('%s(%s,%s)' % (fn, w, w2), ir, (x.value, y.value))
            W, g, (a, b) = world([w, w2])
            (o,) = W.ex.run('@w_eq', [bv(a['obj'].base), bv(b['obj'].base)], W.st)
            x = ctypes.c_size_t(0); nat.call('eq', ctypes.c_void_p(S), ctypes.c_void_p(S2), ctypes.byref(x)); cases += 1
            if z3.simplify(o.val).as_long() != x.value: diff('eq(%s,%s)' % (w, w2), z3.simplify(o.val).as_long(), x.value)
    for s_ in [0, 1, 2, 4, 5, M64]:
        for e_ in [0, 1, 3, 4, 5, M64]:
            W = World(ctx['mod'], 4); g = W.mk_grid('g', n=n, abstract=True); go = W.mk_grid_obj('gobj', g); mem = W.out('mem', W.sup_size)
            (o,) = W.ex.run('@w_ctor', [bv(mem.base), bv(go.base), bv(s_), bv(e_)], W.st)
            x, y = ctypes.c_size_t(0), ctypes.c_size_t(0); rc = nat.call('ctor', ctypes.c_void_p(G), ctypes.c_size_t(s_), ctypes.c_size_t(e_), ctypes.byref(x), ctypes.byref(y)); cases += 1
            if (o.kind == 'ret') != (rc == 0): diff('ctor(%d,%d)' % (s_, e_), o.kind, rc)
    R.d['validation_cases'] = cases
    R.d['obligations'] += 1
    if not R.d['inconclusive']: R.d['discharged'] += 1
    return R

CHECKS.append(validate)
