"""Pre-states for Engine B: arbitrary valid object graphs laid out directly in the executor's memory (no constructor call
sequence is explored). Field offsets come from the IR module's own struct types."""
import z3
from irsym import *

GRID_T = '%"class.bspline::support::Grid"'
SUPPORT_T = '%"class.bspline::support::Support"'


class World:
    def __init__(s, mod, nmax, timeout_ms=60000, max_visits=None):
        s.mod = mod; s.nmax = nmax
        s.ex = Exec(mod, timeout_ms); s.ex.summaries.update(SUMMARIES)
        s.ex.max_block_visits = max(64, max_visits or 0)   # loops over grid intervals are bounded by the path condition (n <= nmax); constant-trip loops need head-room
        s.st = State()
        lst = s.st.alloc(1, 'libc_single_threaded', 'global')
        s.ex.poke(s.st, lst, 0, bv(0, 8), 1)          # "the process has threads": refcounts take the atomic path
        s.ex.gobj['@__libc_single_threaded'] = lst.base
        s.lst = lst
        s.ex.install_globals(s.st)
        s.vars = {}; s._layouts = {}; s._glay = None; s._gobjs = {}; s._grids = []; s._sealed = False
        S = mod.types[SUPPORT_T]; s.sup_offs, s.sup_size, _ = S.layout(mod)
        G = mod.types[GRID_T]; s.grid_size = G.size(mod)

    def var(s, name, bits=64):
        v = z3.BitVec(name, bits); s.vars[name] = v; return v

    def assume(s, c): s.st.pc.append(c)

    def mk_grid(s, name, n=None, abstract=False, increasing=True, lo=2, hi=None, concrete_pts=False):
        """A Grid's heap part: the vector object {begin, finish, end_of_storage}, the data array and the control block.
        n: number of points (symbolic by default, lo <= n <= hi). abstract=True: no data object exists - any dereference of
        grid data is reported - which allows n up to vector<double>::max_size() = 2^60 - 1."""
        ex, st = s.ex, s.st
        if n is None: n = s.var(name + '_n')
        hi = hi if hi is not None else (((1 << 60) - 1) if abstract else s.nmax)   # vector<double>::max_size() = 2^60 - 1
        if not isinstance(n, int): s.assume(z3.And(z3.UGE(n, lo), z3.ULE(n, hi)))
        nv = bv(n) if isinstance(n, int) else n
        vec = st.alloc(24, name + '_vector', 'input'); ctrl = st.alloc(16, name + '_ctrl', 'input')
        pts = []
        if abstract:
            base = 0x4000000000 + 0x1000000000 * len([o for o in st.objs.values() if o.name.endswith('_vector')])  # an address range holding no object
            data = None; dbase = bv(base)
        else:
            data = st.alloc(8 * s.nmax, name + '_data', 'input'); data.lsize = 8 * nv; dbase = bv(data.base)
            for k in range(s.nmax):
                if concrete_pts:   # the points 0.5, 2, 3.5, ... as IEEE bit patterns (long supports, where only x and the coefficients stay symbolic)
                    import struct
                    p = bv(struct.unpack('<Q', struct.pack('<d', 0.5 + 1.5 * k))[0]); s.vars['%s_p%d' % (name, k)] = p
                else:
                    p = s.var('%s_p%d' % (name, k))
                pts.append(p); ex.poke(st, data, 8 * k, p)
            if increasing and not concrete_pts:
                for k in range(s.nmax - 1):
                    s.assume(z3.Implies(z3.UGT(nv, k + 1), z3.fpLT(z3.fpBVToFP(pts[k], z3.Float64()), z3.fpBVToFP(pts[k + 1], z3.Float64()))))
        ex.poke(st, vec, 0, dbase); ex.poke(st, vec, 8, dbase + 8 * nv); ex.poke(st, vec, 16, dbase + 8 * nv)
        uc = s.var(name + '_usecount', 32); s.assume(z3.And(z3.UGE(uc, 2), z3.ULE(uc, 1 << 20)))
        ex.poke(st, ctrl, 8, uc, 4); ex.poke(st, ctrl, 12, bv(1, 32), 4)
        g = dict(name=name, vec=vec, data=data, ctrl=ctrl, n=nv, pts=pts, uc=uc, dbase=dbase)
        s._grids.append(g)
        return g

    def grid_layout(s):
        """Where the shared_ptr sits inside Grid<double> (normally offset 0 of a 16-byte object) and which bytes belong to
        members this harness does not know; their initial values are those of a freshly constructed grid."""
        if s._glay is not None: return s._glay
        G = s.ex.deref(NamedTy(GRID_T)); offs, size, _ = G.layout(s.mod); names = [repr(x) for x in G.fields]
        try: isp = [i for i, n in enumerate(names) if 'shared_ptr' in n][0]
        except IndexError: raise EngineError('Grid layout not understood: fields %s' % names)
        extra = []; pos = 0
        if offs[isp] > 0: extra.append((0, offs[isp]))
        if offs[isp] + 16 < size: extra.append((offs[isp] + 16, size))
        lay = dict(size=size, sp=offs[isp], extra=extra, template={})
        s._glay = lay
        if extra and '@w_mk_grid2' in s.mod.funcs:
            W2 = World(s.mod, 2); mem = W2.out('mem', size)
            try:
                outs = W2.ex.run('@w_mk_grid2', [bv(mem.base)], W2.st)
            except (Violation, EngineError):
                outs = []
            if len(outs) == 1 and outs[0].kind == 'ret':
                o = outs[0].st.objs[mem.id]
                for a, b in extra:
                    for k in range(a, b):
                        v = z3.simplify(z3.Select(o.arr, bv(k)))
                        if z3.is_bv_value(v): lay['template'][k] = v.as_long()
        return lay

    def lay_grid_at(s, obj, off, grid):
        lay = s.grid_layout()
        s.ex.poke(s.st, obj, off + lay['sp'], bv(grid['vec'].base)); s.ex.poke(s.st, obj, off + lay['sp'] + 8, bv(grid['ctrl'].base))
        for k, b in lay['template'].items(): obj.arr = z3.Store(obj.arr, bv(off + k), bv(b, 8))

    def mk_grid_obj(s, name, grid):
        o = s.st.alloc(s.grid_layout()['size'], name, 'input')
        s.lay_grid_at(o, 0, grid)
        return o

    def mk_generator(s, name, grid, knots, native=None, concrete_knots=None):
        """A BSplineGenerator<double>: {Grid, std::vector<double> knots}; layout from the module's struct type. Members the harness
        does not know (added by a change: caches, flags) start with the bytes they have in a generator really constructed by the
        native build from `concrete_knots` - the state of a fresh object; without a native build they stay unconstrained."""
        T = s.mod.types.get('%"class.bspline::BSplineGenerator"')
        if T is None: raise EngineError('no BSplineGenerator type in the module')
        offs, size, _ = T.layout(s.mod)
        gen = s.st.alloc(size, name, 'input'); kn = s.st.alloc(8 * len(knots), name + '_knots', 'input')
        s.lay_grid_at(gen, offs[0], grid)
        s.ex.poke(s.st, gen, offs[1], bv(kn.base)); s.ex.poke(s.st, gen, offs[1] + 8, bv(kn.base + 8 * len(knots))); s.ex.poke(s.st, gen, offs[1] + 16, bv(kn.base + 8 * len(knots)))
        for i, k in enumerate(knots): s.ex.poke(s.st, kn, 8 * i, k)
        known = [(offs[0], offs[0] + s.grid_layout()['size']), (offs[1], offs[1] + 24)]
        unknown = [b for b in range(size) if not any(lo <= b < hi for lo, hi in known)]
        if unknown and native is not None and concrete_knots is not None and hasattr(native.lib, 'n_mk_generator'):
            import ctypes
            native.lib.n_sizeof_generator.restype = ctypes.c_size_t; native.lib.n_mk_generator.restype = ctypes.c_void_p
            native.lib.n_mk_generator.argtypes = [ctypes.POINTER(ctypes.c_double), ctypes.c_size_t]
            if native.lib.n_sizeof_generator() != size: raise EngineError('generator size differs between the IR (%d) and the native build (%d)' % (size, native.lib.n_sizeof_generator()))
            arr = (ctypes.c_double * len(concrete_knots))(*concrete_knots)
            ptr = native.lib.n_mk_generator(arr, len(concrete_knots))
            if not ptr: raise EngineError('native generator construction refused')
            raw = ctypes.string_at(ptr, size)
            for b in unknown: gen.arr = z3.Store(gen.arr, bv(b), bv(raw[b], 8))
        return gen

    def grid_obj_of(s, grid):
        if grid['name'] not in s._gobjs: s._gobjs[grid['name']] = s.mk_grid_obj(grid['name'] + '_gridobject', grid)
        return s._gobjs[grid['name']]

    def run_constructor(s, fn, args, what):
        """Runs a real constructor wrapper on the current state; under the assumed preconditions exactly one path returns
        normally - that post-state becomes the pre-state of the check (its access log is cleared)."""
        L = len(s.st.pc)
        outs = s.ex.run(fn, args, s.st)
        rets = [o for o in outs if o.kind == 'ret']
        if not rets or len(rets) != len(outs):
            raise EngineError('pre-state construction of %s through %s gave %d normal / %d other paths' % (what, fn, len(rets), len(outs) - len(rets)))
        base = rets[0].st
        if len(rets) > 1:
            # the constructor's case distinctions (e.g. empty / non-empty window) end in the same memory: merge the paths again
            conds = [z3.And(o.st.pc[L:]) if len(o.st.pc) > L else z3.BoolVal(True) for o in rets]
            for o in rets[1:]:
                if set(o.st.objs) != set(base.objs) or any(o.st.objs[k].live != base.objs[k].live or o.st.objs[k].size != base.objs[k].size for k in base.objs):
                    raise EngineError('pre-state construction of %s through %s: %d normal paths with different object sets' % (what, fn, len(rets)))
            for k in base.objs:
                if any(not o.st.objs[k].arr.eq(base.objs[k].arr) for o in rets[1:]):
                    # memory that differs between the paths becomes a byte-wise case distinction on the path conditions
                    if base.objs[k].size > 4096: raise EngineError('pre-state construction: large object differs between constructor paths')
                    arr = base.objs[k].arr
                    for off in range(base.objs[k].size):
                        vals = [z3.simplify(z3.Select(o.st.objs[k].arr, bv(off))) for o in rets]
                        if all(v.eq(vals[0]) for v in vals[1:]): continue
                        b = vals[-1]
                        for c, v in reversed(list(zip(conds[:-1], vals[:-1]))): b = z3.If(c, v, b)
                        arr = z3.Store(arr, bv(off), z3.simplify(b))
                    base.objs[k].arr = arr
            # the case distinction is exhaustive under the assumed preconditions (one query): then it need not burden the path condition
            cover = z3.Or(conds)
            base.pc = base.pc[:L] + ([] if not s.ex.feasible(base.pc[:L], z3.Not(cover)) else [cover])
        s.st = base; s.st.log = []

    def mk_support(s, name, grid, start=None, end=None, invariant=True):
        """A Support with a symbolic window. If the module has the constructor wrapper, the object is produced by the REAL
        constructor from (grid, start, end) - whatever the private representation is; otherwise the fields are laid out directly."""
        ex, st = s.ex, s.st
        start = start if start is not None else s.var(name + '_start'); end = end if end is not None else s.var(name + '_end')
        if invariant and '@w_ctor' in s.mod.funcs:
            s.assume(valid_window(start, end, grid['n']))
            go = s.grid_obj_of(grid)
            sup = s.st.alloc(s.sup_size, name, 'input')
            s.run_constructor('@w_ctor', [bv(sup.base), bv(go.base), start, end], name)
            grid['owners'] = grid.get('owners', 0) + 1
            return dict(obj=s.st.objs[sup.id], start=start, end=end, grid=grid, name=name)
        sup = st.alloc(s.sup_size, name, 'input')
        s.lay_grid_at(sup, s.sup_offs[0], grid)
        ex.poke(st, sup, s.sup_offs[1], start); ex.poke(st, sup, s.sup_offs[2], end)
        if invariant: s.assume(valid_window(start, end, grid['n']))
        return dict(obj=sup, start=start, end=end, grid=grid, name=name)

    SPLINE_PROBE = {1: '@w_eval1', 2: '@w_eval'}

    def spline_layout(s, order):
        """Layout of Spline<double,order> from the module's own struct type: offset of the Support, of the coefficient vector,
        total size, and the byte ranges of members this harness does not know (e.g. a cache added by a change). The initial
        bytes of unknown members are those of a freshly constructed object (obtained by running the real constructor
        concretely in the executor)."""
        if order in s._layouts: return s._layouts[order]
        f = s.mod.funcs.get(s.SPLINE_PROBE.get(order, ''))
        std = dict(size=s.sup_size + 24, sup=0, vec=s.sup_size, extra=[], template=None)
        if f is None:
            s._layouts[order] = std; return std
        ty = f['params'][0][1]
        while isinstance(ty, PtrTy): ty = ty.to
        st_ty = s.ex.deref(ty)
        offs, size, _ = st_ty.layout(s.mod)
        names = [repr(x) for x in st_ty.fields]
        try:
            isup = names.index(SUPPORT_T); ivec = [i for i, n in enumerate(names) if 'std::vector' in n][0]
        except (ValueError, IndexError):
            raise EngineError('Spline layout not understood: fields %s' % names)
        known = [(offs[isup], s.sup_size), (offs[ivec], 24)]
        extra = []; pos = 0
        for a, l in sorted(known):
            if a > pos: extra.append((pos, a))
            pos = a + l
        if pos < size: extra.append((pos, size))
        lay = dict(size=size, sup=offs[isup], vec=offs[ivec], extra=extra, template=None)
        if extra:
            # run the real constructor of an interval-free spline on a concrete 2-point grid and keep the bytes of the unknown members
            W2 = World(s.mod, 2); g2 = W2.mk_grid('t', n=2); go = W2.mk_grid_obj('tobj', g2); mem = W2.out('mem', size)
            outs = W2.ex.run('@w_mk_empty%d' % order, [bv(mem.base), bv(go.base)], W2.st)
            if len(outs) == 1 and outs[0].kind == 'ret':
                o = outs[0].st.objs[mem.id]; tmpl = {}
                for a, b in extra:
                    for k in range(a, b):
                        v = z3.simplify(z3.Select(o.arr, bv(k)))
                        if z3.is_bv_value(v): tmpl[k] = v.as_long()
                lay['template'] = tmpl
        s._layouts[order] = lay
        return lay

    def mk_spline(s, name, grid, order, start=None, end=None, kind='input'):
        """A Spline<double,order> object with one coefficient array per interval of the (symbolic) window; coefficient values
        are unconstrained bytes; members unknown to the harness start with the bytes of a freshly constructed object."""
        ex, st = s.ex, s.st
        csz = 8 * (order + 1)
        start = start if start is not None else s.var(name + '_start'); end = end if end is not None else s.var(name + '_end')
        if '@w_mk_spline%d' % order in s.mod.funcs and '@w_ctor' in s.mod.funcs:
            # through the real constructors: Support(grid, start, end), then Spline(support, std::move(vector))
            sup = s.mk_support(name + '_window', grid, start, end)
            lay = s.spline_layout(order)
            nint = z3.If(z3.UGE(end - start, 2), end - start - 1, bv(0))
            coef = s.st.alloc(csz * max(1, s.nmax - 1), name + '_coefficients', kind); coef.lsize = csz * nint
            vec = s.st.alloc(24, name + '_vector_argument', 'scratch')
            ex.poke(s.st, vec, 0, bv(coef.base)); ex.poke(s.st, vec, 8, bv(coef.base) + csz * nint); ex.poke(s.st, vec, 16, bv(coef.base) + csz * nint)
            sp = s.st.alloc(lay['size'], name, kind)
            s.run_constructor('@w_mk_spline%d' % order, [bv(sp.base), bv(sup['obj'].base), bv(vec.base)], name)
            s.st.objs[sup['obj'].id].kind = 'scratch'
            grid['owners'] = grid.get('owners', 0) + 1
            return dict(obj=s.st.objs[sp.id], coef=s.st.objs[coef.id], start=start, end=end, grid=grid, order=order, name=name, nint=nint, layout=lay)
        lay = s.spline_layout(order)
        coef = st.alloc(csz * max(1, s.nmax - 1), name + '_coefficients', kind); sp = st.alloc(lay['size'], name, kind)
        nint = z3.If(z3.UGE(end - start, 2), end - start - 1, bv(0)); coef.lsize = csz * nint
        so, vo = lay['sup'], lay['vec']
        s.lay_grid_at(sp, so + s.sup_offs[0], grid)
        ex.poke(st, sp, so + s.sup_offs[1], start); ex.poke(st, sp, so + s.sup_offs[2], end)
        ex.poke(st, sp, vo, bv(coef.base)); ex.poke(st, sp, vo + 8, bv(coef.base) + csz * nint); ex.poke(st, sp, vo + 16, bv(coef.base) + csz * nint)
        for k, b in (lay['template'] or {}).items(): sp.arr = z3.Store(sp.arr, bv(k), bv(b, 8))
        s.assume(valid_window(start, end, grid['n']))
        return dict(obj=sp, coef=coef, start=start, end=end, grid=grid, order=order, name=name, nint=nint, layout=lay)

    def seal(s):
        """Called before the operation under test runs: the reference-count baseline of every grid becomes its value in the
        constructed pre-state (the symbolic initial count plus one per object the constructors made)."""
        if s._sealed: return
        s._sealed = True
        for o in list(s.st.objs.values()):
            pass
        for g in s._grids:
            g['uc0'] = g['uc']; g['uc'] = z3.simplify(s.ex.peek(s.st, s.st.objs[g['ctrl'].id], 8, 4))

    def out(s, name, nbytes=8):
        return s.st.alloc(nbytes, name, 'out')

    def read_support(s, st, obj_id):
        """(start, end) of a Support object in state st, observed through the REAL getters (getStartIndex/getEndIndex run in
        the executor on a copy of the state) - independent of the private representation."""
        o = st.objs[obj_id]
        vals = []
        for fn in ('@w_start', '@w_endidx'):
            outs = s.ex.run(fn, [bv(o.base)], st.clone())
            if len(outs) != 1 or outs[0].kind != 'ret': raise EngineError('observer %s did not return on a single path' % fn)
            vals.append(outs[0].val)
        return vals[0], vals[1]

    def set_kind(s, d, kind):
        s.st.objs[d['obj'].id].kind = kind


def valid_window(start, end, n):
    return z3.Or(z3.And(start == 0, end == 0), z3.And(z3.ULT(start, end), z3.ULE(end, n)))

def Z(x, extra=8): return z3.ZeroExt(extra, x)   # widened arithmetic for specifications: cannot wrap
def umin(a, b): return z3.If(z3.ULT(a, b), a, b)
def umax(a, b): return z3.If(z3.UGT(a, b), a, b)

def input_writes(st):
    """non-atomic stores that hit an input or global object (the observable for C14/C18)"""
    return [(k, st.objs[oid].name, str(off), nb) for (k, oid, off, nb) in st.log if k == 'store' and st.objs[oid].kind in ('input', 'global')]

def global_reads(st, allowed=('libc_single_threaded',)):
    return [(k, st.objs[oid].name) for (k, oid, off, nb) in st.log if k == 'load' and st.objs[oid].kind == 'global' and st.objs[oid].name not in allowed]
