#!/usr/bin/env python3-vt
"""Engine B ("irsym"): path-based symbolic executor for the subset of LLVM-14 textual IR (typed pointers) that clang -O1
emits for the extern "C" wrappers in irsym/wrappers. Integers/pointers are bit-vectors with wrap-around, memory is a set
of objects with z3 byte arrays, every access is resolved by the solver (out-of-bounds / use-after-free = Violation),
every store is logged with the kind of object it hits. See DESIGN.md 3.2."""
import re, sys, time, itertools
import z3

# ---------------------------------------------------------------- types
class Ty: pass
class IntTy(Ty):
    def __init__(s, bits): s.bits = bits
    def size(s, M): return max(1, (s.bits + 7) // 8)
    def align(s, M): return min(8, s.size(M))
    def __repr__(s): return 'i%d' % s.bits
class FpTy(Ty):
    def __init__(s, bits): s.bits = bits
    def size(s, M): return s.bits // 8
    def align(s, M): return s.bits // 8
    def __repr__(s): return 'fp%d' % s.bits
class PtrTy(Ty):
    def __init__(s, to): s.to = to; s.bits = 64
    def size(s, M): return 8
    def align(s, M): return 8
    def __repr__(s): return '%r*' % (s.to,)
class ArrTy(Ty):
    def __init__(s, n, el): s.n = n; s.el = el
    def size(s, M): return s.n * s.el.size(M)
    def align(s, M): return s.el.align(M)
    def __repr__(s): return '[%d x %r]' % (s.n, s.el)
class StructTy(Ty):
    def __init__(s, fields, packed=False): s.fields = fields; s.packed = packed
    def layout(s, M):
        off = 0; offs = []; al = 1
        for f in s.fields:
            a = 1 if s.packed else f.align(M)
            al = max(al, a)
            off = (off + a - 1) // a * a
            offs.append(off); off += f.size(M)
        tot = (off + al - 1) // al * al
        return offs, tot, al
    def size(s, M): return s.layout(M)[1]
    def align(s, M): return s.layout(M)[2]
    def __repr__(s): return '{%s}' % ', '.join(map(repr, s.fields))
class NamedTy(Ty):
    def __init__(s, name): s.name = name
    def res(s, M): return M.types[s.name]
    def size(s, M): return s.res(M).size(M)
    def align(s, M): return s.res(M).align(M)
    def __repr__(s): return s.name
class FnTy(Ty):
    def size(s, M): return 1
    def align(s, M): return 1
class VoidTy(Ty):
    def __repr__(s): return 'void'
class OpaqueTy(Ty):
    def size(s, M): return 0
    def align(s, M): return 1

TOK = re.compile(r'\s*(%"(?:[^"\\]|\\.)*"|%[\w.$-]+|@"(?:[^"\\]|\\.)*"|@[\w.$-]+|\.\.\.|[{}\[\]()<>*,=]|[-+]?\d+\.\d+e[-+]?\d+|0x[0-9A-Fa-f]+|-?\d+|[\w.]+|c"(?:[^"\\]|\\.)*"|!\w*|"(?:[^"\\]|\\.)*")')
def tokenize(s):
    out = []; i = 0
    while i < len(s):
        m = TOK.match(s, i)
        if not m:
            if s[i:].strip() == '': break
            raise ValueError('tokenize: %r' % s[i:i+40])
        out.append(m.group(1)); i = m.end()
    return out

class P:
    """token cursor"""
    def __init__(s, toks): s.t = toks; s.i = 0
    def peek(s, k=0): return s.t[s.i + k] if s.i + k < len(s.t) else None
    def next(s): s.i += 1; return s.t[s.i - 1]
    def accept(s, x):
        if s.peek() == x: s.i += 1; return True
        return False
    def expect(s, x):
        if not s.accept(x): raise ValueError('expected %r got %r at %r' % (x, s.peek(), s.t[max(0, s.i - 5):s.i + 5]))
    def done(s): return s.i >= len(s.t)

def parse_type(p):
    t = p.next()
    if t == 'void': ty = VoidTy()
    elif re.fullmatch(r'i\d+', t): ty = IntTy(int(t[1:]))
    elif t == 'double': ty = FpTy(64)
    elif t == 'float': ty = FpTy(32)
    elif t == 'x86_fp80': ty = FpTy(128)
    elif t == 'opaque': ty = OpaqueTy()
    elif t.startswith('%'): ty = NamedTy(t)
    elif t == '[':
        n = int(p.next()); p.expect('x'); el = parse_type(p); p.expect(']'); ty = ArrTy(n, el)
    elif t == '{':
        fs = []
        if not p.accept('}'):
            while True:
                fs.append(parse_type(p))
                if p.accept('}'): break
                p.expect(',')
        ty = StructTy(fs)
    elif t == '<' and p.peek() == '{':
        p.next(); fs = []
        if not p.accept('}'):
            while True:
                fs.append(parse_type(p))
                if p.accept('}'): break
                p.expect(',')
        p.expect('>'); ty = StructTy(fs, packed=True)
    else: raise ValueError('type? %r' % t)
    while True:
        if p.accept('*'): ty = PtrTy(ty)
        elif p.peek() == '(':  # function type
            depth = 0
            while True:
                x = p.next()
                if x == '(': depth += 1
                elif x == ')':
                    depth -= 1
                    if depth == 0: break
            ty = FnTy()
        else: break
    return ty

ATTRS = {'noundef', 'nonnull', 'nocapture', 'readonly', 'writeonly', 'noalias', 'signext', 'zeroext', 'returned', 'immarg', 'inreg', 'readnone', 'nofree'}
def skip_attrs(p):
    while True:
        t = p.peek()
        if t in ATTRS: p.next()
        elif t in ('align', 'dereferenceable', 'dereferenceable_or_null'):
            p.next()
            if p.accept('('): p.next(); p.expect(')')
            else: p.next()
        elif t in ('sret', 'byval'):
            p.next(); p.expect('('); parse_type(p); p.expect(')')
        else: break

class Module:
    def __init__(s, text):
        s.types = {}; s.funcs = {}; s.globals = {}
        lines = text.split('\n'); i = 0
        while i < len(lines):
            ln = lines[i]
            m = re.match(r'^(%"(?:[^"\\]|\\.)*"|%[\w.$-]+) = type (.*)$', ln)
            if m:
                s.types[m.group(1)] = parse_type(P(tokenize(m.group(2)))); i += 1; continue
            if ln.startswith('define '):
                j = i
                while lines[j] != '}': j += 1
                s.parse_func(lines[i:j]); i = j + 1; continue
            m = re.match(r'^(@"(?:[^"\\]|\\.)*"|@[\w.$-]+) = ', ln)
            if m: s.globals[m.group(1)] = ln
            i += 1
    def parse_func(s, lines):
        hdr = lines[0]
        m = re.search(r'(@"(?:[^"\\]|\\.)*"|@[\w.$-]+)\(', hdr)
        name = m.group(1)
        # params
        depth = 0; j = m.end() - 1
        while True:
            if hdr[j] == '(': depth += 1
            elif hdr[j] == ')':
                depth -= 1
                if depth == 0: break
            j += 1
        p = P(tokenize(hdr[m.end() - 1:j + 1]))
        p.expect('('); params = []
        if not p.accept(')'):
            while True:
                if p.accept('...'): pass
                else:
                    ty = parse_type(p); skip_attrs(p); params.append((p.next(), ty))
                if p.accept(')'): break
                p.expect(',')
        blocks = {}; order = []; cur = None
        # first block label is implicit: number = len(params) for unnamed
        first = str(len(params))
        cur = first; blocks[cur] = []; order.append(cur)
        for ln in lines[1:]:
            ln = ln.split(' ;')[0] if not ln.lstrip().startswith('c"') else ln
            if not ln.strip(): continue
            m = re.match(r'^([\w.$-]+):', ln)
            if m:
                cur = m.group(1); blocks[cur] = []; order.append(cur); continue
            if blocks[cur] and blocks[cur][-1].startswith('switch ') and not blocks[cur][-1].rstrip().endswith(']'):
                blocks[cur][-1] += ' ' + ln.strip(); continue  # arms of a switch, one per line, up to the closing bracket
            if ln.startswith('  ') and blocks[cur] and ln.startswith('     '):
                blocks[cur][-1] += ' ' + re.sub(r' #\d+', '', ln.strip()); continue  # continuation (invoke/landingpad/switch)
            blocks[cur].append(re.sub(r' #\d+', '', re.sub(r', ![\w.]+ !\d+', '', ln.strip())))
        s.funcs[name] = dict(name=name, params=params, blocks=blocks, entry=first)

# ---------------------------------------------------------------- state
class Obj:
    def __init__(s, oid, base, size, name, kind):
        s.id = oid; s.base = base; s.size = size; s.name = name; s.kind = kind
        s.arr = z3.Array('mem_%s_%d' % (name, oid), z3.BitVecSort(64), z3.BitVecSort(8)); s.live = True; s.lsize = None
    def clone(s):
        o = Obj.__new__(Obj); o.__dict__.update(s.__dict__); return o

class Outcome:
    def __init__(s, kind, val, st): s.kind = kind; s.val = val; s.st = st

class Violation(Exception):
    def __init__(s, msg, st, cond):
        Exception.__init__(s, msg); s.msg = msg; s.st = st; s.cond = cond
class EngineError(Exception): pass

class State:
    def __init__(s):
        s.objs = {}; s.next_base = 0x10000; s.pc = []; s.exc_code = {}; s.log = []
    def clone(s):
        n = State(); n.objs = {k: v.clone() for k, v in s.objs.items()}; n.next_base = s.next_base; n.pc = list(s.pc); n.exc_code = dict(s.exc_code); n.log = list(s.log); n.pending = getattr(s, 'pending', None); return n
    def alloc(s, size, name, kind='heap'):
        base = s.next_base; s.next_base += (size + 0x100 + 15) // 16 * 16
        o = Obj(len(s.objs), base, size, name, kind); s.objs[o.id] = o; return o

def bv(x, bits=64): return z3.BitVecVal(x, bits)

def _has_fp(e, budget=400):
    """does the term contain an IEEE operation / predicate (bounded search)"""
    stack = [e]
    while stack and budget > 0:
        t = stack.pop(); budget -= 1
        if z3.is_app(t):
            if t.decl().name().startswith('fp.'): return True
            stack.extend(t.children())
    return False

class Exec:
    def __init__(s, mod, timeout_ms=60000):
        s.M = mod; s.solver = z3.Solver(); s.solver.set('timeout', timeout_ms); s.queries = 0; s.solver_time = 0.0; s.accesses = 0; s.slowest = 0.0
        s.max_block_visits = 8; s.summaries = {}; s.gobj = {}; s.gaddr = {}; s.new_cap = 256
        s.fork_fp_selects = False   # fork (instead of building an ite) on a select whose condition compares IEEE values: keeps the addresses of a branch-free binary search concrete
    def feasible(s, pc, extra=None):
        s.queries += 1; t0 = time.time()
        s.solver.push()
        for c in pc: s.solver.add(c)
        if extra is not None: s.solver.add(extra)
        r = s.solver.check(); s.solver.pop(); dt = time.time() - t0; s.solver_time += dt; s.slowest = max(s.slowest, dt)
        if r == z3.unknown: raise EngineError('solver unknown/timeout on a feasibility query')
        return r == z3.sat
    # ---- memory
    def inb_cond(s, o, addr, nbytes):
        if o.lsize is not None:
            return z3.And(z3.ULE(bv(o.base), addr), z3.ULE(addr - bv(o.base) + bv(nbytes), o.lsize), z3.ULE(addr - bv(o.base), bv(o.size)))
        if o.size < nbytes: return z3.BoolVal(False)
        return z3.And(z3.ULE(bv(o.base), addr), z3.ULE(addr, bv(o.base + o.size - nbytes)))
    def const_part(s, addr):
        if z3.is_bv_value(addr): return addr.as_long()
        if z3.is_app_of(addr, z3.Z3_OP_BADD):
            for c in addr.children():
                if z3.is_bv_value(c): return c.as_long()
        return None
    def resolve(s, st, addr, nbytes, what):
        """Returns [(obj, cond)] for each live object the access may fall in; raises Violation if, for some input allowed by
        the path condition, it falls outside every live object (or into a dead one)."""
        addr = z3.simplify(addr)
        s.accesses += 1
        c = s.const_part(addr)
        # fast path: the object the constant part points into; one query shows the access is always inside it
        if c is not None:
            for o in st.objs.values():
                if o.base <= c <= o.base + o.size:
                    if z3.is_bv_value(addr) and o.lsize is None:
                        if c + nbytes <= o.base + o.size:
                            if not o.live: raise Violation('use after free: %s of %d bytes in %s' % (what, nbytes, o.name), st, z3.BoolVal(True))
                            return [(o, z3.BoolVal(True))]
                        raise Violation('out-of-bounds %s of %d bytes at %s (object %s, %d bytes)' % (what, nbytes, addr, o.name, o.size), st, z3.BoolVal(True))
                    inb = s.inb_cond(o, addr, nbytes)
                    if not s.feasible(st.pc, z3.Not(inb)):
                        if not o.live: raise Violation('use after free: %s of %d bytes in %s' % (what, nbytes, o.name), st, z3.BoolVal(True))
                        return [(o, z3.BoolVal(True))]
                    break
            if z3.is_bv_value(addr) and not any(o.base <= c <= o.base + o.size for o in st.objs.values()):
                raise Violation('out-of-bounds %s of %d bytes at %s (no object)' % (what, nbytes, addr), st, z3.BoolVal(True))
        # general case: every object the address can fall into, and the question whether it can fall outside all of them
        res = []; conds = []
        for o in st.objs.values():
            inb = s.inb_cond(o, addr, nbytes)
            if z3.is_false(inb): continue
            if s.feasible(st.pc, inb): res.append((o, inb))
            conds.append(inb)
        oob = z3.Not(z3.Or(conds)) if conds else z3.BoolVal(True)
        if s.feasible(st.pc, oob):
            raise Violation('out-of-bounds %s of %d bytes at %s' % (what, nbytes, z3.simplify(addr)), st, oob)
        for o, inb in res:
            if not o.live: raise Violation('use after free: %s of %d bytes in %s' % (what, nbytes, o.name), st, inb)
        return res
    def load(s, st, addr, nbytes):
        outs = []
        cands = s.resolve(st, addr, nbytes, 'load')
        for o, inb in cands:
            st2 = st if len(cands) == 1 else st.clone()
            if len(cands) > 1: st2.pc.append(inb)
            off = z3.simplify(addr - bv(o.base))
            if o.kind == 'global': st2.log.append(('load', o.id, off, nbytes))
            bytes_ = [z3.Select(st2.objs[o.id].arr, off + bv(k)) for k in range(nbytes)]
            v = z3.simplify(z3.Concat(*reversed(bytes_))) if nbytes > 1 else z3.simplify(bytes_[0])
            outs.append((st2, v))
        return outs
    def store(s, st, addr, val, nbytes):
        outs = []
        cands = s.resolve(st, addr, nbytes, 'store')
        for o, inb in cands:
            st2 = st if len(cands) == 1 else st.clone()
            if len(cands) > 1: st2.pc.append(inb)
            off = z3.simplify(addr - bv(o.base)); arr = st2.objs[o.id].arr
            for k in range(nbytes): arr = z3.Store(arr, off + bv(k), z3.Extract(8 * k + 7, 8 * k, val))
            st2.objs[o.id].arr = arr; st2.log.append(('store', o.id, off, nbytes)); outs.append(st2)
        return outs
    # ---- helpers used by harnesses
    def poke(s, st, obj, off, val, nbytes=8):
        arr = obj.arr
        for k in range(nbytes): arr = z3.Store(arr, bv(off + k), z3.Extract(8 * k + 7, 8 * k, val))
        obj.arr = arr
    def peek(s, st, obj, off, nbytes=8):
        return z3.simplify(z3.Concat(*[z3.Select(obj.arr, bv(off + k)) for k in reversed(range(nbytes))]))
    # ---- types
    def sizeof(s, ty): return ty.size(s.M)
    def deref(s, ty):
        while isinstance(ty, NamedTy): ty = ty.res(s.M)
        return ty
    def bits(s, ty):
        ty = s.deref(ty)
        if isinstance(ty, (IntTy, FpTy, PtrTy)): return ty.bits
        raise ValueError('bits of %r' % ty)
    # ---- operands
    def operand(s, p, ty, env):
        t = p.next(); ty = s.deref(ty)
        if t.startswith('%'): return env[t]
        if t in ('null',): return bv(0)
        if t == 'undef' or t == 'poison':
            return z3.BitVec('undef_%d' % next(s.ctr), s.bits(ty)) if not isinstance(ty, StructTy) else None
        if t == 'true': return bv(1, 1)
        if t == 'false': return bv(0, 1)
        if re.fullmatch(r'-?\d+', t): return bv(int(t), s.bits(ty))
        if isinstance(ty, FpTy):
            import struct
            if t.startswith('0x'): return bv(int(t, 16), 64)
            return bv(struct.unpack('<Q', struct.pack('<d', float(t)))[0], 64)
        if t.startswith('@'): return s.global_addr(t)
        if t in ('bitcast', 'inttoptr', 'ptrtoint'):
            # constant expression: bitcast (T v to T2)
            p.expect('('); ty1 = parse_type(p); v = s.operand(p, ty1, env); p.expect('to'); parse_type(p); p.expect(')'); return v
        if t == 'getelementptr':
            # constant expression: getelementptr [inbounds] (T, T* @g, i64 0, [inrange] i32 k, ...)
            p.accept('inbounds'); p.expect('('); bty = parse_type(p); p.expect(','); pty = parse_type(p); addr = s.operand(p, pty, env)
            cur = bty; first = True
            while p.accept(','):
                p.accept('inrange'); ity = parse_type(p); idx = s.operand(p, ity, env)
                if idx.size() < 64: idx = z3.SignExt(64 - idx.size(), idx)
                if first: addr = addr + idx * bv(s.sizeof(cur)); first = False
                else:
                    c = s.deref(cur)
                    if isinstance(c, StructTy):
                        fi = z3.simplify(idx).as_long(); addr = addr + bv(c.layout(s.M)[0][fi]); cur = c.fields[fi]
                    elif isinstance(c, ArrTy): addr = addr + idx * bv(s.sizeof(c.el)); cur = c.el
                    else: raise ValueError('constant gep into %r' % c)
            p.expect(')')
            return z3.simplify(addr)
        raise ValueError('operand? %r' % t)
    def global_addr(s, name):
        if name in s.gobj: return bv(s.gobj[name])
        if name not in s.gaddr: s.gaddr[name] = 0x7f0000000000 + 0x1000 * len(s.gaddr)
        return bv(s.gaddr[name])
    def install_globals(s, st):
        """Every global variable the module DEFINES becomes an object: 'const' for constants, 'global' for mutable ones (a
        store to - or, for C18, a load from - a mutable global shows up in the access log). Contents: zeroinitializer / scalar
        integers / c\"...\" strings are exact, everything else is left as unconstrained bytes."""
        s.mutable_globals = []
        for name, ln in s.M.globals.items():
            m = re.match(r'^\S+ = (.*?)\b(global|constant) (.*)$', ln)
            if not m or 'external' in m.group(1).split(): continue
            rest = m.group(3)
            try:
                p = P(tokenize(rest)); ty = parse_type(p); size = ty.size(s.M)
            except Exception:
                continue
            kind = 'const' if m.group(2) == 'constant' else 'global'
            o = st.alloc(max(size, 1), 'global' + name.replace('@', '_'), kind); s.gobj[name] = o.base
            if kind == 'global': s.mutable_globals.append(name)
            init = rest[rest.index(' ') + 1:] if ' ' in rest else ''
            tok = p.peek()
            if tok == 'zeroinitializer' or (tok is not None and re.fullmatch(r'-?\d+', tok) and size <= 8):
                val = 0 if tok == 'zeroinitializer' else int(tok)
                for k in range(size): o.arr = z3.Store(o.arr, bv(k), bv((val >> (8 * k)) & 0xff if k < 8 else 0, 8))
            elif tok is not None and tok.startswith('c"'):
                raw = tok[2:-1]; bs = []; i = 0
                while i < len(raw):
                    if raw[i] == '\\': bs.append(int(raw[i + 1:i + 3], 16)); i += 3
                    else: bs.append(ord(raw[i])); i += 1
                for k, b in enumerate(bs[:size]): o.arr = z3.Store(o.arr, bv(k), bv(b, 8))
    # ---- run
    def run(s, fname, args, st):
        s.ctr = itertools.count()
        return list(s.call(fname, args, st, 0))
    def intrinsic(s, fname, args):
        """pure integer intrinsics clang emits for std::min/max, saturating and overflow-checked arithmetic"""
        m = re.match(r'^@llvm\.(umax|umin|smax|smin|usub\.sat|uadd\.sat|abs|uadd\.with\.overflow|usub\.with\.overflow|umul\.with\.overflow)\.i(\d+)$', fname)
        if not m: return None
        op, bits = m.group(1), int(m.group(2)); a = args[0]; b = args[1] if len(args) > 1 else None
        if op == 'umax': return z3.If(z3.UGT(a, b), a, b)
        if op == 'umin': return z3.If(z3.ULT(a, b), a, b)
        if op == 'smax': return z3.If(a > b, a, b)
        if op == 'smin': return z3.If(a < b, a, b)
        if op == 'usub.sat': return z3.If(z3.UGE(a, b), a - b, bv(0, bits))
        if op == 'uadd.sat': return z3.If(z3.ULT(a + b, a), bv((1 << bits) - 1, bits), a + b)
        if op == 'abs': return z3.If(a < 0, -a, a)
        if op == 'uadd.with.overflow': return [a + b, z3.If(z3.ULT(a + b, a), bv(1, 1), bv(0, 1))]
        if op == 'usub.with.overflow': return [a - b, z3.If(z3.ULT(a, b), bv(1, 1), bv(0, 1))]
        if op == 'umul.with.overflow':
            w = z3.ZeroExt(bits, a) * z3.ZeroExt(bits, b)
            return [a * b, z3.If(z3.Extract(2 * bits - 1, bits, w) != 0, bv(1, 1), bv(0, 1))]
    def call(s, fname, args, st, depth):
        if fname in s.summaries:
            yield from s.summaries[fname](s, args, st); return
        if fname.startswith('@llvm.'):
            r = s.intrinsic(fname, args)
            if r is not None:
                yield Outcome('ret', [z3.simplify(x) for x in r] if isinstance(r, list) else z3.simplify(r), st); return
        f = s.M.funcs.get(fname)
        if f is None: raise EngineError('no model for external %s' % fname)
        env = {pn: a for (pn, _), a in zip(f['params'], args)}
        yield from s.exec_block(f, f['entry'], None, env, st, {}, depth)
    def exec_block(s, f, label, pred, env, st, visits, depth):
        visits = dict(visits); visits[label] = visits.get(label, 0) + 1
        if visits[label] > s.max_block_visits: raise EngineError('unwinding bound exceeded in %s block %s' % (f['name'], label))
        env = dict(env)
        insts = f['blocks'][label]
        # phis first (parallel)
        newvals = {}
        k = 0
        while k < len(insts) and ' = phi ' in insts[k]:
            m = re.match(r'^(%[\w.]+) = phi (.*)$', insts[k]); p = P(tokenize(m.group(2))); ty = parse_type(p)
            val = None
            while True:
                p.expect('['); sv = p.i
                # find the label first (operand is a single token in the IR we accept)
                vtok_i = p.i; p.next(); p.expect(','); lab = p.next().lstrip('%'); p.expect(']')
                if lab == pred:
                    if isinstance(s.deref(ty), StructTy): val = None
                    else: val = s.operand(P([p.t[vtok_i]]), ty, env)
                if not p.accept(','): break
            newvals[m.group(1)] = val; k += 1
        env.update(newvals)
        yield from s.exec_insts(f, label, insts, k, env, st, visits, depth)
    def exec_insts(s, f, label, insts, k, env, st, visits, depth):
        while k < len(insts):
            ins = insts[k]; k += 1
            m = re.match(r'^(%[\w.]+) = (.*)$', ins)
            dst, body = (m.group(1), m.group(2)) if m else (None, ins)
            p = P(tokenize(body)); op = p.next()
            if op in ('tail', 'musttail', 'notail'): op = p.next()
            if op == 'getelementptr':
                p.accept('inbounds'); bty = parse_type(p); p.expect(','); pty = parse_type(p); base = s.operand(p, pty, env)
                addr = base; cur = bty; first = True
                while p.accept(','):
                    ity = parse_type(p); idx = s.operand(p, ity, env)
                    if idx.size() < 64: idx = z3.SignExt(64 - idx.size(), idx)
                    if first: addr = addr + idx * bv(s.sizeof(cur)); first = False
                    else:
                        c = s.deref(cur)
                        if isinstance(c, StructTy):
                            fi = idx.as_long() if z3.is_bv_value(idx) else z3.simplify(idx).as_long()
                            addr = addr + bv(c.layout(s.M)[0][fi]); cur = c.fields[fi]
                        elif isinstance(c, ArrTy): addr = addr + idx * bv(s.sizeof(c.el)); cur = c.el
                        else: raise ValueError('gep into %r' % c)
                env[dst] = z3.simplify(addr)
            elif op == 'load':
                atomic = p.accept('atomic'); p.accept('volatile'); ty = parse_type(p); p.expect(','); pty = parse_type(p); a = s.operand(p, pty, env)
                nb = s.sizeof(ty); outs = s.load(st, a, nb)
                for i_, (st2, v) in enumerate(outs):
                    e2 = env if len(outs) == 1 else dict(env)
                    if s.bits(ty) < 8 * nb: v = z3.Extract(s.bits(ty) - 1, 0, v)
                    e2[dst] = v
                    if len(outs) > 1: yield from s.exec_insts(f, label, insts, k, e2, st2, visits, depth)
                if len(outs) > 1: return
                st = outs[0][0]
            elif op == 'store':
                p.accept('atomic'); p.accept('volatile'); ty = parse_type(p); v = s.operand(p, ty, env); p.expect(','); pty = parse_type(p); a = s.operand(p, pty, env)
                nb = s.sizeof(ty)
                if v.size() < 8 * nb: v = z3.ZeroExt(8 * nb - v.size(), v)
                outs = s.store(st, a, v, nb)
                if len(outs) > 1:
                    for st2 in outs: yield from s.exec_insts(f, label, insts, k, dict(env), st2, visits, depth)
                    return
                st = outs[0]
            elif op in ('add', 'sub', 'mul', 'and', 'or', 'xor', 'shl', 'lshr', 'ashr', 'udiv', 'sdiv', 'urem', 'srem'):
                while p.peek() in ('nsw', 'nuw', 'exact'): p.next()
                ty = parse_type(p); a = s.operand(p, ty, env); p.expect(','); b = s.operand(p, ty, env)
                env[dst] = z3.simplify({'add': lambda: a + b, 'sub': lambda: a - b, 'mul': lambda: a * b, 'and': lambda: a & b, 'or': lambda: a | b, 'xor': lambda: a ^ b,
                            'shl': lambda: a << b, 'lshr': lambda: z3.LShR(a, b), 'ashr': lambda: a >> b, 'udiv': lambda: z3.UDiv(a, b), 'sdiv': lambda: a / b,
                            'urem': lambda: z3.URem(a, b), 'srem': lambda: z3.SRem(a, b)}[op]())
            elif op == 'icmp':
                pred_ = p.next(); ty = parse_type(p); a = s.operand(p, ty, env); p.expect(','); b = s.operand(p, ty, env)
                c = {'eq': a == b, 'ne': a != b, 'ugt': z3.UGT(a, b), 'uge': z3.UGE(a, b), 'ult': z3.ULT(a, b), 'ule': z3.ULE(a, b), 'sgt': a > b, 'sge': a >= b, 'slt': a < b, 'sle': a <= b}[pred_]
                env[dst] = z3.simplify(z3.If(c, bv(1, 1), bv(0, 1)))
            elif op == 'select':
                cty = parse_type(p); c = s.operand(p, cty, env); p.expect(','); ty = parse_type(p); a = s.operand(p, ty, env); p.expect(','); parse_type(p); b = s.operand(p, ty, env)
                if s.fork_fp_selects and not z3.is_bv_value(c) and _has_fp(c):
                    ct = z3.simplify(c == bv(1, 1))
                    for cond, val in ((ct, a), (z3.simplify(z3.Not(ct)), b)):
                        if z3.is_false(cond): continue
                        if z3.is_true(cond) or s.feasible(st.pc, cond):
                            st2 = st.clone()
                            if not z3.is_true(cond): st2.pc.append(cond)
                            env2 = dict(env); env2[dst] = val
                            yield from s.exec_insts(f, label, insts, k, env2, st2, visits, depth)
                    return
                env[dst] = z3.simplify(z3.If(c == bv(1, 1), a, b))
            elif op in ('zext', 'sext', 'trunc', 'bitcast', 'ptrtoint', 'inttoptr'):
                ty = parse_type(p); a = s.operand(p, ty, env); p.expect('to'); ty2 = parse_type(p); nb = s.bits(ty2)
                if op == 'zext': a = z3.ZeroExt(nb - a.size(), a)
                elif op == 'sext': a = z3.SignExt(nb - a.size(), a)
                elif op == 'trunc': a = z3.Extract(nb - 1, 0, a)
                env[dst] = z3.simplify(a)
            elif op == 'alloca':
                ty = parse_type(p); o = st.alloc(s.sizeof(ty), 'alloca' + dst.replace('%', '_'), 'stack'); env[dst] = bv(o.base)
            elif op == 'br':
                if p.peek() == 'label':
                    p.next(); yield from s.exec_block(f, p.next().lstrip('%'), label, env, st, visits, depth); return
                parse_type(p); c = s.operand(p, IntTy(1), env); p.expect(','); p.expect('label'); lt = p.next().lstrip('%'); p.expect(','); p.expect('label'); lf = p.next().lstrip('%')
                ct = z3.simplify(c == bv(1, 1))
                for cond, lab in ((ct, lt), (z3.simplify(z3.Not(ct)), lf)):
                    if z3.is_false(cond): continue
                    if z3.is_true(cond) or s.feasible(st.pc, cond):
                        st2 = st.clone()
                        if not z3.is_true(cond): st2.pc.append(cond)
                        yield from s.exec_block(f, lab, label, env, st2, visits, depth)
                return
            elif op == 'switch':
                ty = parse_type(p); v = s.operand(p, ty, env); p.expect(','); p.expect('label'); dflt = p.next().lstrip('%'); p.expect('[')
                arms = []
                while not p.accept(']'):
                    cty = parse_type(p); cv = s.operand(p, cty, env); p.expect(','); p.expect('label'); arms.append((cv, p.next().lstrip('%')))
                taken = []
                for cv, lab in arms:
                    cond = z3.simplify(v == cv)
                    if z3.is_false(cond): continue
                    if z3.is_true(cond) or s.feasible(st.pc, cond):
                        st2 = st.clone()
                        if not z3.is_true(cond): st2.pc.append(cond)
                        yield from s.exec_block(f, lab, label, env, st2, visits, depth)
                    taken.append(cond)
                    if z3.is_true(cond): return
                none = z3.simplify(z3.Not(z3.Or(taken))) if taken else z3.BoolVal(True)
                if not z3.is_false(none) and (z3.is_true(none) or s.feasible(st.pc, none)):
                    st2 = st.clone()
                    if not z3.is_true(none): st2.pc.append(none)
                    yield from s.exec_block(f, dflt, label, env, st2, visits, depth)
                return
            elif op == 'ret':
                ty = parse_type(p)
                if isinstance(s.deref(ty), StructTy): v = env[p.next()]
                else: v = None if isinstance(ty, VoidTy) else s.operand(p, ty, env)
                yield Outcome('ret', v, st); return
            elif op in ('call', 'invoke'):
                while p.peek() in ('noundef', 'nonnull', 'zeroext', 'signext', 'noalias', 'fastcc') or p.peek() in ('align', 'dereferenceable'):
                    skip_attrs(p)
                    if p.peek() == 'fastcc': p.next()
                rty = parse_type(p); callee = p.next()
                if callee.startswith('@llvm.experimental.noalias') or callee.startswith('@llvm.lifetime') or callee.startswith('@llvm.dbg'): continue
                p.expect('('); args = []
                if not p.accept(')'):
                    while True:
                        aty = parse_type(p); skip_attrs(p)
                        if aty.__class__.__name__ == 'MetaTy': p.next(); args.append(None)
                        else: args.append(s.operand(p, aty, env))
                        if p.accept(')'): break
                        p.expect(',')
                normal = None
                if op == 'invoke':
                    rest = body[body.index(' to label ') + len(' to label '):]; normal = rest.split()[0].lstrip('%')
                if callee.startswith('%'): raise EngineError('indirect call reached in %s' % f['name'])
                if callee.startswith('@llvm.lifetime') or callee.startswith('@llvm.dbg') or callee.startswith('@llvm.assume') or callee.startswith('@llvm.experimental.noalias'):
                    continue
                outs = list(s.call(callee, args, st, depth + 1))
                conts = []
                for o in outs:
                    if o.kind == 'throw':
                        if op == 'invoke':
                            ul = body[body.index(' unwind label ') + len(' unwind label '):].split()[0].lstrip('%')
                            o.st.pending = o.val; yield from s.exec_block(f, ul, label, dict(env), o.st, visits, depth)
                        else: yield o
                        continue
                    conts.append(o)
                for o in conts:
                    e2 = dict(env)
                    if dst: e2[dst] = o.val
                    if normal is not None: yield from s.exec_block(f, normal, label, e2, o.st, visits, depth)
                    else: yield from s.exec_insts(f, label, insts, k, e2, o.st, visits, depth)
                return
            elif op == 'atomicrmw':
                p.accept('volatile'); aop = p.next(); pty = parse_type(p); a = s.operand(p, pty, env); p.expect(','); ty = parse_type(p); v = s.operand(p, ty, env)
                nb = s.sizeof(ty); (st, old), = s.load(st, a, nb)
                new = {'add': old + v, 'sub': old - v, 'xchg': v}[aop]
                st, = s.store(st, a, z3.simplify(new), nb); st.log[-1] = ('atomic',) + st.log[-1][1:]; env[dst] = old
            elif op == 'fcmp':
                pred_ = p.next(); ty = parse_type(p); a = s.operand(p, ty, env); p.expect(','); b = s.operand(p, ty, env)
                fa, fb = z3.fpBVToFP(a, z3.Float64()), z3.fpBVToFP(b, z3.Float64())
                un = z3.Or(z3.fpIsNaN(fa), z3.fpIsNaN(fb))
                base = {'oeq': z3.fpEQ(fa, fb), 'ogt': z3.fpGT(fa, fb), 'oge': z3.fpGEQ(fa, fb), 'olt': z3.fpLT(fa, fb), 'ole': z3.fpLEQ(fa, fb), 'one': z3.And(z3.Not(un), z3.Not(z3.fpEQ(fa, fb))),
                        'ueq': z3.Or(un, z3.fpEQ(fa, fb)), 'ugt': z3.Or(un, z3.fpGT(fa, fb)), 'uge': z3.Or(un, z3.fpGEQ(fa, fb)), 'ult': z3.Or(un, z3.fpLT(fa, fb)), 'ule': z3.Or(un, z3.fpLEQ(fa, fb)), 'une': z3.Or(un, z3.Not(z3.fpEQ(fa, fb))), 'uno': un, 'ord': z3.Not(un)}[pred_]
                env[dst] = z3.If(base, bv(1, 1), bv(0, 1))
            elif op in ('fadd', 'fsub', 'fmul', 'fdiv'):
                while p.peek() in ('fast', 'nnan', 'ninf', 'nsz', 'contract', 'reassoc', 'arcp', 'afn'): p.next()
                ty = parse_type(p); a = s.operand(p, ty, env); p.expect(','); b = s.operand(p, ty, env)
                env[dst] = z3.Function('uf_' + op, z3.BitVecSort(64), z3.BitVecSort(64), z3.BitVecSort(64))(a, b)
            elif op in ('uitofp', 'sitofp', 'fptoui', 'fptosi', 'fpext', 'fptrunc'):
                # conversions are uninterpreted: the engine decides addresses and control flow, not floating-point values
                ty = parse_type(p); a = s.operand(p, ty, env); p.expect('to'); ty2 = parse_type(p)
                env[dst] = z3.Function('uf_%s_%d_%d' % (op, a.size(), s.bits(ty2)), z3.BitVecSort(a.size()), z3.BitVecSort(s.bits(ty2)))(a)
            elif op == 'fneg':
                while p.peek() in ('fast', 'nnan', 'ninf', 'nsz', 'contract', 'reassoc', 'arcp', 'afn'): p.next()
                ty = parse_type(p); a = s.operand(p, ty, env)
                env[dst] = z3.simplify(a ^ bv(1 << (a.size() - 1), a.size()))
            elif op == 'landingpad':
                env[dst] = None
            elif op == 'resume':
                yield Outcome('throw', st.pending, st); return
            elif op == 'extractvalue':
                ty = parse_type(p); tok = p.next(); agg = env[tok] if tok.startswith('%') else None; p.expect(','); i_ = int(p.next()); env[dst] = agg[i_]
            elif op == 'insertvalue':
                ty = parse_type(p); tok = p.next(); agg = list(env[tok]) if tok.startswith('%') and env.get(tok) is not None else [None] * len(s.deref(ty).fields)
                p.expect(','); ety = parse_type(p); v = s.operand(p, ety, env); p.expect(','); i_ = int(p.next()); agg[i_] = v; env[dst] = agg
            elif op == 'unreachable':
                raise EngineError('reached unreachable in %s' % f['name'])
            else:
                raise EngineError('unsupported instruction: %s' % ins)

# ---------------------------------------------------------------- summaries (environment models)
def sum_alloc_exc(ex, args, st):
    n = z3.simplify(args[0]).as_long(); o = st.alloc(n, 'exc', 'heap'); yield Outcome('ret', bv(o.base), st)
def sum_exc_ctor(ex, args, st):
    # BSplineException(ErrorCode): message formatting stubbed; record the code
    st.exc_code[z3.simplify(args[0]).as_long()] = z3.simplify(args[1]); yield Outcome('ret', None, st)
def sum_throw(ex, args, st):
    yield Outcome('throw', (st.exc_code.get(z3.simplify(args[0]).as_long()), args[1]), st)
SUMMARIES = {'@__cxa_allocate_exception': sum_alloc_exc, '@_ZN7bspline10exceptions16BSplineExceptionC2ENS0_9ErrorCodeE': sum_exc_ctor, '@__cxa_throw': sum_throw}

def sum_noop(ex, args, st): yield Outcome('ret', None, st)
def sum_memcpy(ex, args, st):
    n = z3.simplify(args[2]).as_long()
    for k in range(n):
        (st, b), = ex.load(st, args[1] + bv(k), 1); st, = ex.store(st, args[0] + bv(k), b, 1)
    yield Outcome('ret', None, st)
def sum_delete(ex, args, st):
    a = z3.simplify(args[0])
    for o in st.objs.values():
        if z3.is_bv_value(a) and o.base == a.as_long(): o.live = False
    yield Outcome('ret', None, st)
SUMMARIES.update({'@__cxa_free_exception': sum_noop, '@llvm.memcpy.p0i8.p0i8.i64': sum_memcpy, '@_ZdlPv': sum_delete, '@llvm.experimental.noalias.scope.decl': sum_noop})
def sum_memset(ex, args, st):
    n = z3.simplify(args[2]).as_long()
    for k in range(n): st, = ex.store(st, args[0] + bv(k), z3.Extract(7, 0, args[1]) if args[1].size() > 8 else args[1], 1)
    yield Outcome('ret', None, st)
SUMMARIES['@llvm.memset.p0i8.i64'] = sum_memset

def sum_fmuladd(ex, args, st):
    yield Outcome('ret', z3.Function('uf_fmuladd', z3.BitVecSort(64), z3.BitVecSort(64), z3.BitVecSort(64), z3.BitVecSort(64))(*args), st)
SUMMARIES['@llvm.fmuladd.f64'] = sum_fmuladd
def sum_new(ex, args, st):
    n = z3.simplify(args[0])
    if z3.is_bv_value(n): o = st.alloc(n.as_long(), 'new', 'heap')
    else:
        o = st.alloc(ex.new_cap, 'new', 'heap'); o.lsize = n
        if ex.feasible(st.pc, z3.UGT(n, bv(ex.new_cap))): raise EngineError('operator new size may exceed modelled capacity')
    yield Outcome('ret', bv(o.base), st)
SUMMARIES['@_Znwm'] = sum_new
# function-local statics with dynamic initialisation: the guard is a mutable global of the module (its load and the store of
# the release are logged like any other access, which is what the C18 audit reports); the registered destructor is ignored
def sum_guard_acquire(ex, args, st):
    (st1, b), = ex.load(st, args[0], 1)
    for cond, val in ((b == bv(0, 8), 1), (b != bv(0, 8), 0)):
        c = z3.simplify(cond)
        if z3.is_false(c): continue
        if z3.is_true(c) or ex.feasible(st1.pc, c):
            st2 = st1.clone()
            if not z3.is_true(c): st2.pc.append(c)
            yield Outcome('ret', bv(val, 32), st2)
def sum_guard_release(ex, args, st):
    st, = ex.store(st, args[0], bv(1, 8), 1)
    yield Outcome('ret', None, st)
def sum_atexit(ex, args, st): yield Outcome('ret', bv(0, 32), st)
SUMMARIES.update({'@__cxa_guard_acquire': sum_guard_acquire, '@__cxa_guard_release': sum_guard_release, '@__cxa_guard_abort': sum_noop, '@__cxa_atexit': sum_atexit})
def sum_throw_len(ex, args, st): yield Outcome('throw', ('std::length_error', None), st)
SUMMARIES['@_ZSt20__throw_length_errorPKc'] = sum_throw_len
def sum_memmove(ex, args, st):
    n = z3.simplify(args[2])
    if not z3.is_bv_value(n):
        # bounded symbolic length: fork on each feasible concrete length up to new_cap
        for k in range(0, ex.new_cap + 1, 8):
            if ex.feasible(st.pc, n == bv(k)):
                st2 = st.clone(); st2.pc.append(n == bv(k)); yield from sum_memmove(ex, [args[0], args[1], bv(k)], st2)
        if ex.feasible(st.pc, z3.Or(z3.UGT(n, bv(ex.new_cap)), z3.URem(n, bv(8)) != 0)): raise EngineError('memmove length outside model')
        return
    n = n.as_long(); tmp = []
    for k in range(n):
        (st, b), = ex.load(st, args[1] + bv(k), 1); tmp.append(b)
    for k in range(n): st, = ex.store(st, args[0] + bv(k), tmp[k], 1)
    yield Outcome('ret', None, st)
SUMMARIES['@llvm.memmove.p0i8.p0i8.i64'] = sum_memmove
SUMMARIES['@llvm.memcpy.p0i8.p0i8.i64'] = sum_memmove

def sum_umax(ex, args, st): yield Outcome('ret', z3.simplify(z3.If(z3.UGT(args[0], args[1]), args[0], args[1])), st)
def sum_umin(ex, args, st): yield Outcome('ret', z3.simplify(z3.If(z3.ULT(args[0], args[1]), args[0], args[1])), st)
SUMMARIES['@llvm.umax.i64'] = sum_umax; SUMMARIES['@llvm.umin.i64'] = sum_umin
def sum_std_throw(what):
    def f(ex, args, st): yield Outcome('throw', (what, None), st)
    return f
for _n, _w in (('@_ZSt17__throw_bad_allocv', 'std::bad_alloc'), ('@_ZSt19__throw_logic_errorPKc', 'std::logic_error'), ('@_ZSt28__throw_bad_array_new_lengthv', 'std::bad_array_new_length'),
               ('@_ZSt24__throw_out_of_range_fmtPKcz', 'std::out_of_range'), ('@_ZSt27__throw_bad_optional_accessv', 'std::bad_optional_access')):
    SUMMARIES[_n] = sum_std_throw(_w)
def sum_exc_ctor2(ex, args, st):
    # BSplineException(ErrorCode, std::string): message formatting stubbed; record the code
    st.exc_code[z3.simplify(args[0]).as_long()] = z3.simplify(args[1]); yield Outcome('ret', None, st)
SUMMARIES['@_ZN7bspline10exceptions16BSplineExceptionC2ENS0_9ErrorCodeENSt7__cxx1112basic_stringIcSt11char_traitsIcESaIcEEE'] = sum_exc_ctor2
def sum_strlen(ex, args, st):
    n = 0
    while True:
        (st, b), = ex.load(st, args[0] + bv(n), 1); b = z3.simplify(b)
        if not z3.is_bv_value(b): raise EngineError('strlen over symbolic bytes')
        if b.as_long() == 0: break
        n += 1
        if n > 4096: raise EngineError('strlen: unterminated')
    yield Outcome('ret', bv(n), st)
SUMMARIES['@strlen'] = sum_strlen
