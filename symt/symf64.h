// sym::F64 - a scalar whose *comparisons* are the IEEE-754 binary64 predicates over z3 Float64 terms (NaN unordered,
// -0 == +0, infinities ordered). Used where the code under test only compares scalars (grid validation, std::unique,
// knot guards): comparators bit-blast cheaply; arithmetic on F64 is not provided for solving (a harness that needs
// values uses sym::Real). Concrete replay build: a plain double whose bit pattern comes from the model.
#pragma once
#include "sym.h"
#include <cstdint>
#include <cstring>
namespace sym {
#ifndef SYMT_CONCRETE
class F64 {
  z3::expr e;

 public:
  F64() : e(ctx().fpa_val(0.0)) {}
  template <typename I, std::enable_if_t<std::is_integral_v<I>, bool> = true>
  explicit F64(I i) : e(ctx().fpa_val((double)i)) {}
  explicit F64(z3::expr x) : e(x) {}
  F64(const F64 &) = default;  // copy only, see sym::Real
  F64 &operator=(const F64 &) = default;
  static F64 var(const std::string &nm) {
    z3::expr v = ctx().constant(nm.c_str(), ctx().fpa_sort(11, 53));
    auto &E = Engine::get();
    bool known = false;
    for (auto &p : E.vars)
      if (p.first == nm) known = true;
    if (!known) E.vars.emplace_back(nm, v);
    return F64(v);
  }
  const z3::expr &expr() const { return e; }
  bool operator<(const F64 &o) const { return Engine::get().decide(e < o.e); }
  bool operator<=(const F64 &o) const { return Engine::get().decide(e <= o.e); }
  bool operator>(const F64 &o) const { return Engine::get().decide(e > o.e); }
  bool operator>=(const F64 &o) const { return Engine::get().decide(e >= o.e); }
  bool operator==(const F64 &o) const { return Engine::get().decide(z3::fp_eq(e, o.e)); }
  bool operator!=(const F64 &o) const { return Engine::get().decide(!z3::fp_eq(e, o.e)); }
};
// a narrower scalar (IEEE binary32) constructible from F64 by rounding to nearest: for grids built from a sequence whose
// value type differs from the grid's scalar type (the conversion may collapse distinct values)
class F32 {
  z3::expr e;

 public:
  F32() : e(ctx().fpa_val(0.0f)) {}
  template <typename I, std::enable_if_t<std::is_integral_v<I>, bool> = true>
  explicit F32(I i) : e(ctx().fpa_val((float)i)) {}
  explicit F32(const F64 &d) : e(z3::expr(ctx(), Z3_mk_fpa_to_fp_float(ctx(), ctx().fpa_rounding_mode(), d.expr(), ctx().fpa_sort(8, 24)))) {}
  F32(const F32 &) = default;
  F32 &operator=(const F32 &) = default;
  const z3::expr &expr() const { return e; }
  bool operator<(const F32 &o) const { return Engine::get().decide(e < o.e); }
  bool operator<=(const F32 &o) const { return Engine::get().decide(e <= o.e); }
  bool operator>(const F32 &o) const { return Engine::get().decide(e > o.e); }
  bool operator>=(const F32 &o) const { return Engine::get().decide(e >= o.e); }
  bool operator==(const F32 &o) const { return Engine::get().decide(z3::fp_eq(e, o.e)); }
  bool operator!=(const F32 &o) const { return Engine::get().decide(!z3::fp_eq(e, o.e)); }
};
inline Bool flt32(const F64 &a, const F64 &b) { return Bool(F32(a).expr() < F32(b).expr()); }
inline Bool flt(const F64 &a, const F64 &b) { return Bool(a.expr() < b.expr()); }
inline Bool fle(const F64 &a, const F64 &b) { return Bool(a.expr() <= b.expr()); }
inline Bool feq(const F64 &a, const F64 &b) { return Bool(z3::fp_eq(a.expr(), b.expr())); }
inline Bool fisnan(const F64 &a) { return Bool(z3::expr(ctx(), Z3_mk_fpa_is_nan(ctx(), a.expr()))); }
#else
class F64 {
  double d;

 public:
  F64() : d(0) {}
  template <typename I, std::enable_if_t<std::is_integral_v<I>, bool> = true>
  explicit F64(I i) : d((double)i) {}
  struct FromD {};
  F64(FromD, double x) : d(x) {}
  static F64 var(const std::string &nm) {
    auto &m = Engine::get().fmodel;
    auto it = m.find(nm);
    uint64_t bits = it == m.end() ? 0 : it->second;
    double x;
    std::memcpy(&x, &bits, 8);
    return F64(FromD{}, x);
  }
  double val() const { return d; }
  bool operator<(const F64 &o) const { return d < o.d; }
  bool operator<=(const F64 &o) const { return d <= o.d; }
  bool operator>(const F64 &o) const { return d > o.d; }
  bool operator>=(const F64 &o) const { return d >= o.d; }
  bool operator==(const F64 &o) const { return d == o.d; }
  bool operator!=(const F64 &o) const { return d != o.d; }
};
class F32 {
  float f;

 public:
  F32() : f(0) {}
  template <typename I, std::enable_if_t<std::is_integral_v<I>, bool> = true>
  explicit F32(I i) : f((float)i) {}
  explicit F32(const F64 &d) : f((float)d.val()) {}
  float val() const { return f; }
  bool operator<(const F32 &o) const { return f < o.f; }
  bool operator<=(const F32 &o) const { return f <= o.f; }
  bool operator>(const F32 &o) const { return f > o.f; }
  bool operator>=(const F32 &o) const { return f >= o.f; }
  bool operator==(const F32 &o) const { return f == o.f; }
  bool operator!=(const F32 &o) const { return f != o.f; }
};
inline Bool flt32(const F64 &a, const F64 &b) { return Bool((float)a.val() < (float)b.val()); }
inline Bool flt(const F64 &a, const F64 &b) { return Bool(a.val() < b.val()); }
inline Bool fle(const F64 &a, const F64 &b) { return Bool(a.val() <= b.val()); }
inline Bool feq(const F64 &a, const F64 &b) { return Bool(a.val() == b.val()); }
inline Bool fisnan(const F64 &a) { return Bool(a.val() != a.val()); }
#endif
}  // namespace sym
