// Case runner and helpers shared by all Engine A harnesses.
// A harness defines `void hx_cases(std::vector<hx::Case>&)` and includes this header last.
#pragma once
#include "sym.h"

#include <bspline/Core.h>
#include <signal.h>
#include <sys/wait.h>
#include <unistd.h>

#include <array>
#include <cstring>
#include <fstream>
#include <iostream>

namespace hx {
using sym::Bool;
using sym::Engine;
using sym::Real;
using sym::stats;

struct Case {
  std::string id;
  std::function<void()> body;
};

inline std::string &cur_case() {
  static std::string s;
  return s;
}
inline std::string &out_path() {
  static std::string s;
  return s;
}
inline std::string result_json(const std::string &extra = "") {
  auto &S = stats();
  std::ostringstream o;
  o << "{\"case\":\"" << sym::jesc(cur_case()) << "\",\"paths\":" << S.paths << ",\"obligations\":" << S.obligations
    << ",\"discharged\":" << S.discharged << ",\"feas_queries\":" << S.feas_queries << ",\"cache_hits\":" << S.cache_hits
    << ",\"forks\":" << S.forks << ",\"controls\":" << S.controls << ",\"controls_sat\":" << S.controls_sat
    << ",\"witnesses\":" << S.witnesses << ",\"witnesses_sat\":" << S.witnesses_sat << ",\"divisions_checked\":" << S.divisions_checked
    << ",\"solver_s\":" << S.solver_s << ",\"slowest_s\":" << S.slowest_s << ",\"nontrivial\":[";
  bool f = true;
  for (auto h : S.nontrivial) {
    o << (f ? "" : ",") << h;
    f = false;
  }
  o << "],\"branch_atoms\":[";
  f = true;
  for (auto h : S.branch_atoms) {
    o << (f ? "" : ",") << h;
    f = false;
  }
  o << "],\"violations\":[";
  f = true;
  for (auto &v : S.violations) {
    o << (f ? "" : ",") << "{\"key\":\"" << sym::jesc(v.key) << "\",\"kind\":\"" << v.kind << "\",\"detail\":\"" << sym::jesc(v.detail)
      << "\",\"trail\":\"" << v.trail << "\",\"model\":{";
    bool g = true;
    for (auto &kv : v.model) {
      o << (g ? "" : ",") << "\"" << sym::jesc(kv.first) << "\":\"" << sym::jesc(kv.second) << "\"";
      g = false;
    }
    o << "}}";
    f = false;
  }
  o << "]";
  auto list = [&](const char *name, const std::vector<std::string> &v) {
    o << ",\"" << name << "\":[";
    bool g = true;
    for (auto &s : v) {
      o << (g ? "" : ",") << "\"" << sym::jesc(s) << "\"";
      g = false;
    }
    o << "]";
  };
  list("inconclusive", S.inconclusive);
  list("notes", S.notes);
  list("samples", S.samples);
  list("reproduced", S.reproduced);
  o << extra << "}\n";
  return o.str();
}
inline void flush_result(const std::string &extra = "") {
  std::string s = result_json(extra);
  FILE *f = out_path().empty() ? stdout : fopen(out_path().c_str(), "a");
  if (!f) _exit(9);
  fwrite(s.data(), 1, s.size(), f);
  if (f != stdout)
    fclose(f);
  else
    fflush(stdout);
}
// A hard fault on a symbolic path (checked-STL assertion, sanitizer report, signal): record it with a model of
// the current path condition, write the case result and leave.
inline std::string &err_path() {
  static std::string s;
  return s;
}
inline std::string stderr_tail() {
  if (err_path().empty()) return "";
  fflush(stderr);
  std::ifstream in(err_path());
  std::stringstream ss;
  ss << in.rdbuf();
  std::string t = ss.str();
  if (t.size() > 500) t = t.substr(0, 500);
  return t.empty() ? "" : " | stderr: " + t;
}
inline void hard_fault(const std::string &kind, const std::string &detail0) {
  static bool in = false;
  if (in) _exit(8);
  in = true;
  signal(SIGALRM, SIG_DFL);
  alarm(20);
  std::string detail = detail0 + stderr_tail();
#ifndef SYMT_CONCRETE
  try {
    Engine::get().fail("memory-safety/" + kind, kind, detail);
  } catch (...) {
    sym::Violation v;
    v.key = "memory-safety/" + kind;
    v.kind = kind;
    v.detail = detail;
    stats().violations.push_back(v);
  }
#else
  stats().reproduced.push_back("memory-safety/" + kind);
  stats().notes.push_back(detail);
#endif
  flush_result();
  _exit(0);
}
// a case that exceeds its wall-clock budget is inconclusive (never a pass): e.g. a change that makes the real code fork on
// every coefficient can multiply the number of paths beyond reach
inline void on_alarm(int) {
  static bool in = false;
  if (in) _exit(8);
  in = true;
  stats().inconclusive.push_back("case time budget exceeded after " + std::to_string(stats().paths) + " paths");
  flush_result();
  _exit(0);
}
inline void on_signal(int sig) { hard_fault("signal", std::string("signal ") + std::to_string(sig) + " (" + strsignal(sig) + ")"); }

inline void run_case_inproc(Case &c) {
  cur_case() = c.id;
  auto &E = Engine::get();
  E.reset_all();
  unsigned long maxpaths = getenv("SYMT_MAX_PATHS") ? atol(getenv("SYMT_MAX_PATHS")) : 20000;
  do {
    E.reset_run();
    try {
      c.body();
      stats().paths++;
    } catch (sym::AbortCase &a) {
      stats().notes.push_back(std::string("case aborted: ") + a.what());
      break;
    } catch (bspline::exceptions::BSplineException &e) {
      E.fail("unexpected-exception", "exception", std::string("BSplineException escaped the harness: ") + e.what());
      stats().paths++;
    } catch (std::exception &e) {
      E.fail("unexpected-exception", "exception", std::string("std::exception escaped the harness: ") + e.what());
      stats().paths++;
    }
    if (stats().paths > maxpaths) {
      stats().inconclusive.push_back("path bound exceeded");
      break;
    }
  } while (E.next_path());
}

inline int run_main(int argc, char **argv, std::vector<Case> &cases) {
  std::vector<std::string> a(argv + 1, argv + argc);
  auto find = [&](const std::string &id) -> Case * {
    for (auto &c : cases)
      if (c.id == id) return &c;
    return nullptr;
  };
  if (!a.empty() && a[0] == "--count") {
    std::cout << cases.size() << "\n";
    return 0;
  }
  if (!a.empty() && a[0] == "--list") {
    for (auto &c : cases) std::cout << c.id << "\n";
    return 0;
  }
#ifdef SYMT_CONCRETE
  // --replay <case id> <model file: lines "name value">
  if (a.size() >= 3 && a[0] == "--replay") {
    Case *c = find(a[1]);
    if (!c) {
      std::cerr << "no such case " << a[1] << "\n";
      return 2;
    }
    std::ifstream in(a[2]);
    std::string nm, val;
    while (in >> nm >> val) {
      if (val.rfind("bits:", 0) == 0)
        Engine::get().fmodel[nm] = std::stoull(val.substr(5));
      else
        Engine::get().model[nm] = sym::parse_q(val);
    }
    signal(SIGSEGV, on_signal);
    signal(SIGABRT, on_signal);
    signal(SIGFPE, on_signal);
    signal(SIGBUS, on_signal);
    run_case_inproc(*c);
    flush_result();
    return 0;
  }
  std::cerr << "concrete build: use --replay <case> <modelfile>\n";
  return 2;
#else
  // --run <out file> <first> <last+1>   or   --run <out file> id <case id>
  if (a.size() >= 4 && a[0] == "--run") {
    out_path() = a[1];
    std::vector<Case *> sel;
    if (a[2] == "id") {
      Case *c = find(a[3]);
      if (!c) return 2;
      sel.push_back(c);
    } else {
      size_t lo = atol(a[2].c_str()), hi = atol(a[3].c_str());
      for (size_t i = lo; i < hi && i < cases.size(); i++) sel.push_back(&cases[i]);
    }
    for (Case *c : sel) {
      fflush(nullptr);
      pid_t pid = fork();
      if (pid == 0) {
        err_path() = out_path() + ".err";
        if (!freopen(err_path().c_str(), "w", stderr)) err_path().clear();
        signal(SIGSEGV, on_signal);
        signal(SIGABRT, on_signal);
        signal(SIGFPE, on_signal);
        signal(SIGBUS, on_signal);
        double t0 = sym::now_s();
        signal(SIGALRM, on_alarm);
        alarm(getenv("SYMT_CASE_BUDGET_S") ? atoi(getenv("SYMT_CASE_BUDGET_S")) : 240);
        run_case_inproc(*c);
        alarm(0);
        std::ostringstream ex;
        ex << ",\"wall_s\":" << (sym::now_s() - t0);
        flush_result(ex.str());
        _exit(0);
      }
      int st = 0;
      waitpid(pid, &st, 0);
      if (!(WIFEXITED(st) && WEXITSTATUS(st) == 0)) {
        std::ofstream o(out_path(), std::ios::app);
        o << "{\"case\":\"" << sym::jesc(c->id) << "\",\"crash\":\"child status " << st << "\"}\n";
      }
    }
    return 0;
  }
  std::cerr << "usage: --count | --list | --run <out> <lo> <hi> | --run <out> id <case>\n";
  return 2;
#endif
}

// ------------------------------------------------------------------ helpers over the real library types
using bspline::Spline;
using bspline::support::Grid;
using bspline::support::Support;

inline std::vector<Real> gridvars(size_t n, const std::string &pfx = "g") {
  std::vector<Real> g;
  for (size_t k = 0; k < n; k++) g.push_back(Real::var(pfx + std::to_string(k)));
  for (size_t k = 0; k + 1 < n; k++) Engine::get().assume(sym::lt(g[k], g[k + 1]));
  return g;
}
// grid points of a case: symbolic (strictly increasing) by default; with -DFIXED_GRID fixed irregular rationals - used by the
// high-order variants, where symbolic points raised to high powers are out of reach while coefficients (and x) stay symbolic
inline std::vector<Real> gridpoints(size_t n, const std::string &pfx = "g") {
#ifdef FIXED_GRID
  static const long long NUM[] = {-7, -1, 2, 9, 11, 7, 45, 13, 27, 44, 16, 86, 37, 20, 64, 22, 91, 25, 51, 27},
                         DEN[] = {3, 2, 5, 4, 2, 1, 4, 1, 2, 3, 1, 5, 2, 1, 3, 1, 4, 1, 2, 1};
  if (n > 20) throw std::logic_error("fixed grid has 20 points");
  std::vector<Real> g;
  for (size_t k = 0; k < n; k++) g.push_back(Real::frac(NUM[k], DEN[k]));
  (void)pfx;
  return g;
#else
  return gridvars(n, pfx);
#endif
}
template <size_t o>
Spline<Real, o> mkspline(const Grid<Real> &g, size_t s, size_t e, const std::string &nm) {
  Support<Real> sup(g, s, e);
  std::vector<std::array<Real, o + 1>> c(sup.numberOfIntervals());
  for (size_t i = 0; i < c.size(); i++)
    for (size_t j = 0; j <= o; j++) c[i][j] = Real::var(nm + std::to_string(s + i) + "_" + std::to_string(j));
  return Spline<Real, o>(sup, c);
}
// all windows of a grid with n points: empty (0,0), point-like (s,s+1), and s<e<=n
inline std::vector<std::pair<size_t, size_t>> windows(size_t n, bool with_pointlike = true) {
  std::vector<std::pair<size_t, size_t>> w;
  w.push_back({0, 0});
  for (size_t s = 0; s < n; s++)
    for (size_t e = s + 1; e <= n; e++)
      if (with_pointlike || e > s + 1) w.push_back({s, e});
  return w;
}

// deterministic sample of `count` windows of an n-point grid for the large-size variants (-DLARGE=<n>): the empty window, the whole
// grid, windows flush with either end, and pseudo-random ones (fixed LCG, so every run explores the same set)
inline std::vector<std::pair<size_t, size_t>> windows_sample(size_t n, size_t count, unsigned long seed = 1) {
  std::vector<std::pair<size_t, size_t>> w{{0, 0}, {0, n}, {0, n / 2 + 1}, {n / 2, n}, {n - 2, n}, {0, 2}, {n / 2, n / 2 + 1}};
  unsigned long st = seed * 6364136223846793005UL + 1442695040888963407UL;
  auto rnd = [&](size_t m) { st = st * 6364136223846793005UL + 1442695040888963407UL; return (size_t)((st >> 33) % m); };
  while (w.size() < count) {
    size_t s = rnd(n), e = s + 1 + rnd(n - s);
    std::pair<size_t, size_t> c{s, e};
    if (std::find(w.begin(), w.end(), c) == w.end()) w.push_back(c);
  }
  w.resize(std::min(count, w.size()));
  return w;
}

// ---- reference polynomials in the global monomial basis (powers of x about the origin)
using Poly = std::vector<Real>;
inline Poly padd(const Poly &a, const Poly &b) {
  Poly r(std::max(a.size(), b.size()), Real(0));
  for (size_t i = 0; i < a.size(); i++) r[i] = r[i] + a[i];
  for (size_t i = 0; i < b.size(); i++) r[i] = r[i] + b[i];
  return r;
}
inline Poly pscale(const Poly &a, const Real &c) {
  Poly r;
  for (auto &x : a) r.push_back(x * c);
  return r;
}
inline Poly psub(const Poly &a, const Poly &b) { return padd(a, pscale(b, Real(-1))); }
inline Poly pmul(const Poly &a, const Poly &b) {
  if (a.empty() || b.empty()) return {};
  Poly r(a.size() + b.size() - 1, Real(0));
  for (size_t i = 0; i < a.size(); i++)
    for (size_t j = 0; j < b.size(); j++) r[i + j] = r[i + j] + a[i] * b[j];
  return r;
}
inline Poly pderiv(const Poly &a) {
  Poly r;
  for (size_t i = 1; i < a.size(); i++) r.push_back(a[i] * Real((long long)i));
  return r;
}
inline Poly pmulx(const Poly &a) {
  Poly r{Real(0)};
  for (auto &x : a) r.push_back(x);
  return r;
}
inline Real peval(const Poly &a, const Real &x) {
  Real r(0), p(1);
  for (auto &c : a) {
    r = r + c * p;
    p = p * x;
  }
  return r;
}
// definite integral by the antiderivative at both ends
inline Real pintegral(const Poly &a, const Real &lo, const Real &hi) {
  Real r(0), pl = lo, ph = hi;
  for (size_t k = 0; k < a.size(); k++) {
    r = r + a[k] * (ph - pl) / Real((long long)(k + 1));
    pl = pl * lo;
    ph = ph * hi;
  }
  return r;
}
// expand sum_k c_k (x - xm)^k into origin monomials
template <size_t N>
Poly origin_poly(const std::array<Real, N> &c, const Real &xm) {
  Poly r, pw{Real(1)};
  Poly lin{-xm, Real(1)};
  for (size_t k = 0; k < N; k++) {
    r = padd(r, pscale(pw, c[k]));
    pw = pmul(pw, lin);
  }
  return r;
}
// the polynomial a spline denotes on absolute grid interval gi (zero polynomial outside the support)
template <size_t o>
Poly piece(const Spline<Real, o> &s, const std::vector<Real> &g, size_t gi) {
  const auto &sup = s.getSupport();
  size_t st = sup.getStartIndex(), en = sup.getEndIndex();
  if (en < st + 2 || gi < st || gi + 1 >= en) return {};
  Real xm = (g[gi] + g[gi + 1]) / Real(2);
  return origin_poly(s.getCoefficients().at(gi - st), xm);
}
// value of a spline's stored piece for absolute interval gi at x (power sum about the midpoint; zero outside)
template <size_t o>
Real piece_at(const Spline<Real, o> &s, const std::vector<Real> &g, size_t gi, const Real &x) {
  const auto &sup = s.getSupport();
  size_t st = sup.getStartIndex(), en = sup.getEndIndex();
  if (en < st + 2 || gi < st || gi + 1 >= en) return Real(0);
  Real xm = (g[gi] + g[gi + 1]) / Real(2), dx = x - xm, p(1), r(0);
  for (auto &c : s.getCoefficients().at(gi - st)) {
    r = r + c * p;
    p = p * dx;
  }
  return r;
}
// k-th derivative of the stored piece on absolute interval gi at the point x (power sum about the midpoint)
template <size_t o>
Real piece_deriv_at(const Spline<Real, o> &s, const std::vector<Real> &g, size_t gi, size_t k, const Real &x) {
  const auto &sup = s.getSupport();
  size_t st = sup.getStartIndex(), en = sup.getEndIndex();
  if (en < st + 2 || gi < st || gi + 1 >= en) return Real(0);
  Real xm = (g[gi] + g[gi + 1]) / Real(2), dx = x - xm, r(0);
  const auto &c = s.getCoefficients().at(gi - st);
  for (size_t j = k; j <= o; j++) {
    Real f(1), pw(1);
    for (size_t q = 0; q < k; q++) f = f * Real((long long)(j - q));
    for (size_t q = 0; q < j - k; q++) pw = pw * dx;
    r = r + c[j] * f * pw;
  }
  return r;
}

// structural invariants (C10): window valid, one coefficient array per interval
template <size_t o>
bool shape_ok(const Spline<Real, o> &s, size_t n) {
  const auto &sup = s.getSupport();
  size_t st = sup.getStartIndex(), en = sup.getEndIndex();
  bool win = (st == 0 && en == 0) || (st < en && en <= n);
  size_t ni = en > st + 1 ? en - st - 1 : 0;
  return win && s.getCoefficients().size() == ni && sup.getGrid().size() == n;
}
inline std::string W(std::pair<size_t, size_t> w) { return std::to_string(w.first) + "-" + std::to_string(w.second); }
}  // namespace hx

// ---- checked-STL hook: a failed _GLIBCXX_ASSERTIONS check on a symbolic path is a memory-safety violation
namespace std {
[[noreturn]] void __glibcxx_assert_fail(const char *file, int line, const char *func, const char *cond) noexcept {
  std::string d = std::string(file ? file : "?") + ":" + std::to_string(line) + ": " + (func ? func : "?") + ": " + (cond ? cond : "?");
  hx::hard_fault("stl-assert", d.substr(0, 400));
  _exit(0);
}
}  // namespace std
extern "C" void __asan_on_error() { hx::hard_fault("asan", "AddressSanitizer report"); }

void hx_cases(std::vector<hx::Case> &cases);
int main(int argc, char **argv) {
  std::vector<hx::Case> cases;
  hx_cases(cases);
  return hx::run_main(argc, argv, cases);
}
