#pragma once
// Verification stub for boost::math::quadrature::gauss. Contract modelled: the N-point Gauss-Legendre rule is exact for polynomials up to
// degree 2N-1.
//  * N <= 5: the exact rule itself, nodes and weights as algebraic numbers (specialisations in symt/gauss_nodes.h);
//  * N  > 5: the nodes are roots of irreducible polynomials of degree >= 3 and cannot be represented exactly; the stub then integrates
//    the polynomial of degree <= 2N-1 that interpolates the integrand at 2N rational points of the interval - for every integrand
//    inside the contract (a polynomial of degree <= 2N-1) that is the same number the Gauss rule returns. Integrands outside the
//    contract get a different wrong value than boost's; the harnesses only instantiate exact cases (static_assert).
#include <cstddef>
#include <vector>
namespace boost { namespace math { namespace quadrature {
template <class Real, unsigned N> struct gauss_nodes;  // specialised by the harness for the symbolic type
template <class Real, unsigned N> struct gauss {
  static const std::vector<Real> &interp_weights() {
    static const std::vector<Real> w = [] {
      const unsigned M = 2 * N;
      std::vector<Real> t, out;
      for (unsigned j = 0; j < M; j++) t.push_back(static_cast<Real>((long long)(2 * j + 1) - (long long)M) / static_cast<Real>((long long)M));
      for (unsigned j = 0; j < M; j++) {
        std::vector<Real> c{static_cast<Real>(1)};  // coefficients of L_j, lowest power first
        for (unsigned k = 0; k < M; k++) {
          if (k == j) continue;
          const Real den = t[j] - t[k];
          std::vector<Real> nc(c.size() + 1, static_cast<Real>(0));
          for (size_t m = 0; m < c.size(); m++) {
            nc[m + 1] = nc[m + 1] + c[m] / den;
            nc[m] = nc[m] - c[m] * t[k] / den;
          }
          c = nc;
        }
        Real wj = static_cast<Real>(0);
        for (size_t m = 0; m < c.size(); m += 2) wj = wj + c[m] * static_cast<Real>(2) / static_cast<Real>((long long)(m + 1));
        out.push_back(wj);
      }
      return out;
    }();
    return w;
  }
  template <class F> static auto integrate(F f, Real a, Real b) -> decltype(f(a)) {
    const Real two = static_cast<Real>(2);
    const Real mid = (a + b) / two, half = (b - a) / two;
    Real acc = static_cast<Real>(0);
    if constexpr (N <= 5) {
      for (unsigned i = 0; i < N; i++) acc += gauss_nodes<Real, N>::weight(i) * f(mid + half * gauss_nodes<Real, N>::node(i));
    } else {
      const unsigned M = 2 * N;
      const std::vector<Real> &w = interp_weights();
      for (unsigned j = 0; j < M; j++) acc += w[j] * f(mid + half * (static_cast<Real>((long long)(2 * j + 1) - (long long)M) / static_cast<Real>((long long)M)));
    }
    return acc * half;
  }
};
}}}
