#pragma once
// Verification stub: exact Gauss-Legendre rule with algebraic nodes, contract = exactness up to degree 2N-1.
#include <cstddef>
namespace boost { namespace math { namespace quadrature {
template <class Real, unsigned N> struct gauss_nodes;  // specialised by the harness for the symbolic type
template <class Real, unsigned N> struct gauss {
  template <class F> static auto integrate(F f, Real a, Real b) -> decltype(f(a)) {
    const Real two = static_cast<Real>(2);
    const Real mid = (a + b) / two, half = (b - a) / two;
    Real acc = static_cast<Real>(0);
    for (unsigned i = 0; i < N; i++) acc += gauss_nodes<Real, N>::weight(i) * f(mid + half * gauss_nodes<Real, N>::node(i));
    return acc * half;
  }
};
}}}
