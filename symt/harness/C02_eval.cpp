// C02: evaluation returns the value of the stored piecewise polynomial.
// Real code executed: Spline::operator(), findInterval (std::lower_bound over Support iterators),
// Support::begin/end/front/back/size/operator[], Grid::operator[], internal::evaluateInterval, Spline::front/back.
#include "../harness.h"
using namespace hx;
#ifndef MAXN
#define MAXN 5
#endif
#ifndef MAXO
#define MAXO 3
#endif
#ifndef HISTN
#define HISTN 3
#endif

// the real operator() on s at x against the stored pieces of s (read through the public getters)
template <size_t o>
void check_eval(const std::string &k, const Spline<Real, o> &s, const std::vector<Real> &g, const Real &x, bool with_control) {
  auto &E = Engine::get();
  Real r = s(x);
  size_t st = s.getSupport().getStartIndex(), en = s.getSupport().getEndIndex();
  bool has_iv = en >= st + 2;
  if (!has_iv) {
    E.prove(k + "zero-without-intervals", sym::eq(r, Real(0)));
  } else {
    Bool outside = sym::lt(x, g[st]) || sym::gt(x, g[en - 1]);
    Bool inside_ok = Bool::F();
    for (size_t j = st; j + 1 < en; j++)
      inside_ok = inside_ok || (sym::le(g[j], x) && sym::le(x, g[j + 1]) && sym::eq(r, piece_at(s, g, j, x)));
    E.prove(k + "zero-outside-closed-support", sym::implies(outside, sym::eq(r, Real(0))));
    E.prove(k + "value-of-containing-piece", sym::implies(!outside, inside_ok));
    if (with_control) {
      // negative control: a perturbed expected value must be refutable on this path
      Bool wrong = Bool::F();
      for (size_t j = st; j + 1 < en; j++) wrong = wrong || sym::eq(r, piece_at(s, g, j, x) + Real(1));
      E.control("perturbed-value", sym::implies(!outside, wrong) && sym::implies(outside, sym::eq(r, Real(1))));
    }
  }
}

template <size_t o>
void eval_case(size_t n, std::pair<size_t, size_t> w) {
  auto &E = Engine::get();
  auto g = gridpoints(n);
  Grid<Real> grid(g);
  auto s = mkspline<o>(grid, w.first, w.second, "c");
  Real x = Real::var("x");
  size_t st = w.first, en = w.second;
  check_eval("", s, g, x, stats().paths == 0);
  // front / back
  if (en > st) {
    E.prove("front-is-first-point", sym::eq(s.front(), g[st]));
    E.prove("back-is-last-point", sym::eq(s.back(), g[en - 1]));
  } else {
    for (int which = 0; which < 2; which++) {
      bool thrown = false;
      try {
        if (which == 0)
          (void)s.front();
        else
          (void)s.back();
      } catch (bspline::exceptions::BSplineException &) {
        thrown = true;
      }
      if (!thrown) E.fail(which ? "back-throws-when-empty" : "front-throws-when-empty", "structure", "no exception for an empty support");
      stats().obligations++;
      if (thrown) stats().discharged++;
    }
  }
}

// evaluation of an object with a history: an earlier evaluation at an independent symbolic x1, then (optionally) an
// in-place change of the object, then the evaluation under test
template <size_t o>
void history_case(size_t n, std::pair<size_t, size_t> w, std::pair<size_t, size_t> wt, int kind) {
  auto g = gridpoints(n);
  Grid<Real> grid(g);
  auto s = mkspline<o>(grid, w.first, w.second, "c");
  auto t = mkspline<o>(grid, wt.first, wt.second, "t");
  Real x1 = Real::var("x1"), x = Real::var("x");
  (void)s(x1);
  (void)t(x1);
  std::string k = "history" + std::to_string(kind) + "/";
  switch (kind) {
    case 0: break;                       // second evaluation of the same object
    case 1: s = t; break;                // copy assignment from another window
    case 2: s = std::move(t); break;     // move assignment
    case 3: s += t; break;               // in-place arithmetic changes the window
    case 4:
      if constexpr (o > 0) {
        auto low = mkspline<o - 1>(grid, wt.first, wt.second, "l");
        s = low;                         // lower-order assignment
      }
      break;
    case 5: { Spline<Real, o> u(std::move(s)); s = t; (void)u(x1); } break;  // moved-from, then reassigned
  }
  check_eval(k, s, g, x, false);
}

template <size_t o>
void add(std::vector<Case> &cases) {
  for (size_t n = 2; n <= MAXN; n++)
    for (auto w : windows(n))
      cases.push_back({"eval/o" + std::to_string(o) + "/n" + std::to_string(n) + "/w" + W(w), [=] { eval_case<o>(n, w); }});
  for (size_t n = 2; n <= HISTN; n++)
    for (auto w : windows(n))
      for (auto wt : windows(n, false))
        for (int kind = 0; kind < 6; kind++) {
          if (kind == 0 && wt != windows(n, false)[0]) continue;
          cases.push_back({"eval-history/o" + std::to_string(o) + "/n" + std::to_string(n) + "/w" + W(w) + "/wt" + W(wt) + "/k" + std::to_string(kind), [=] { history_case<o>(n, w, wt, kind); }});
        }
  if constexpr (o > 0) add<o - 1>(cases);
}
#ifdef LARGE
// large structural sizes on the fixed rational grid: every window of a LARGE-point grid (orders 0, 1, 3), and objects with a
// history for a sample of window pairs
template <size_t o>
void add_large(std::vector<Case> &cases) {
  for (auto w : windows(LARGE)) cases.push_back({"eval-large/o" + std::to_string(o) + "/n" + std::to_string(LARGE) + "/w" + W(w), [=] { eval_case<o>(LARGE, w); }});
}
#ifndef LARGE_HIST
#define LARGE_HIST 6
#endif
void hx_cases(std::vector<Case> &cases) {
  add_large<1>(cases);
#ifdef LARGE_ALL
  add_large<0>(cases);
  add_large<3>(cases);
#else
  for (auto w : windows_sample(LARGE, 16, 5)) cases.push_back({"eval-large/o3/n" + std::to_string(LARGE) + "/w" + W(w), [=] { eval_case<3>(LARGE, w); }});
#endif
  auto ws = windows_sample(LARGE, LARGE_HIST, 2), wt = windows_sample(LARGE, LARGE_HIST - 1, 3);
  for (auto w : ws)
    for (auto t : wt)
      for (int kind = 1; kind < 6; kind++)
        cases.push_back({"eval-history-large/o2/n" + std::to_string(LARGE) + "/w" + W(w) + "/wt" + W(t) + "/k" + std::to_string(kind), [=] { history_case<2>(LARGE, w, t, kind); }});
}
#elif defined(FIXED_GRID)
template <size_t o>
void add_high(std::vector<Case> &cases) {
  for (size_t n = 2; n <= MAXN; n++)
    for (auto w : windows(n)) cases.push_back({"eval-high/o" + std::to_string(o) + "/n" + std::to_string(n) + "/w" + W(w), [=] { eval_case<o>(n, w); }});
}
void hx_cases(std::vector<Case> &cases) {
  add_high<6>(cases);
  add_high<7>(cases);
  add_high<9>(cases);
  add_high<11>(cases);
  add_high<12>(cases);
  add_high<13>(cases);
  add_high<16>(cases);
  add_high<8>(cases);
  add_high<10>(cases);
  add_high<20>(cases);
}
#else
void hx_cases(std::vector<Case> &cases) { add<MAXO>(cases); }
#endif
