// C08: operations across different grids are refused, never computed.
// Real code executed: Grid::operator== (pointer fast path, element-wise slow path), Support::hasSameGrid/calcUnion/
// calcIntersection, Spline +,-,*,+=,-=, linearCombination, BilinearForm::evaluate, integrate<n> (numerical.h, with the
// exact Gauss stub), SplineOperator::transform via op*spline / LinearForm / BilinearForm, BSplineGenerator(knots, grid).
#include "../harness.h"
#include <bspline/integration/numerical.h>
#include <bspline/operators/SplineOperator.h>
#include "../gauss_nodes.h"
using namespace hx;
using namespace bspline::operators;
using namespace bspline::integration;
using bspline::exceptions::BSplineException;
using bspline::exceptions::ErrorCode;
#ifndef MAXN
#define MAXN 4
#endif

template <size_t o>
struct Snap {
  size_t st, en;
  std::vector<std::array<Real, o + 1>> c;
  explicit Snap(const Spline<Real, o> &s) : st(s.getSupport().getStartIndex()), en(s.getSupport().getEndIndex()), c(s.getCoefficients()) {}
};
template <size_t o>
void unchanged(const std::string &key, const Spline<Real, o> &s, const Snap<o> &sn, const std::vector<Real> &pts) {
  auto &E = Engine::get();
  stats().obligations++;
  bool ok = s.getSupport().getStartIndex() == sn.st && s.getSupport().getEndIndex() == sn.en && s.getCoefficients().size() == sn.c.size() &&
            s.getSupport().getGrid().size() == pts.size();
  if (!ok) {
    E.fail(key + "/operand-unchanged", "structure", "operand window/shape/grid size changed");
    return;
  }
  stats().discharged++;
  for (size_t i = 0; i < sn.c.size(); i++)
    for (size_t j = 0; j <= o; j++) E.prove(key + "/operand-coefficient-unchanged", sym::eq(s.getCoefficients()[i][j], sn.c[i][j]));
  for (size_t k = 0; k < pts.size(); k++) E.prove(key + "/operand-grid-unchanged", sym::eq(s.getSupport().getGrid()[k], pts[k]));
}
template <size_t o>
void same_spline(const std::string &key, const Spline<Real, o> &r, const Spline<Real, o> &ref) {
  auto &E = Engine::get();
  stats().obligations++;
  bool ok = r.getSupport().getStartIndex() == ref.getSupport().getStartIndex() && r.getSupport().getEndIndex() == ref.getSupport().getEndIndex() &&
            r.getCoefficients().size() == ref.getCoefficients().size();
  if (!ok) {
    E.fail(key + "/same-as-shared-grid", "structure", "result window differs from the shared-instance result");
    return;
  }
  stats().discharged++;
  for (size_t i = 0; i < r.getCoefficients().size(); i++)
    for (size_t j = 0; j <= o; j++) E.prove(key + "/same-as-shared-grid", sym::eq(r.getCoefficients()[i][j], ref.getCoefficients()[i][j]));
}

// Runs `op`; `must_throw`: whether the property demands a refusal when the grids differ (false = no demand either way
// when they differ). On the equal-grid paths no exception may occur and `check_result` compares with the shared-instance result.
template <class Op, class Chk>
void entry(const std::string &key, const Bool &differ, bool demand, Op op, Chk check_result, bool any_library_exception = false) {
  auto &E = Engine::get();
  bool threw = false, rightcode = false;
  try {
    op();
  } catch (BSplineException &e) {
    threw = true;
    rightcode = any_library_exception || e.getErrorCode() == ErrorCode::DIFFERING_GRIDS;
  }
  if (threw) {
    E.prove(key + "/throws-only-if-grids-differ", differ);
    stats().obligations++;
    if (rightcode) stats().discharged++; else E.fail(key + "/error-code", "structure", "refusal does not carry the differing-grids code");
  } else {
    if (demand) E.prove(key + "/no-result-across-different-grids", !differ);
    // if the grids are equal on this path the result must equal the shared-instance result
    if (E.sat(!differ)) check_result();
  }
}

template <size_t oa, size_t ob>
void grids_case(size_t n1, size_t n2, std::pair<size_t, size_t> wa, std::pair<size_t, size_t> wb, std::pair<size_t, size_t> wc) {
  auto &E = Engine::get();
  auto g = gridvars(n1, "g"), h = gridvars(n2, "h");
  Grid<Real> G(g), H(h);
  Bool differ = Bool::of(n1 != n2);
  if (n1 == n2) {
    differ = Bool::F();
    for (size_t k = 0; k < n1; k++) differ = differ || sym::ne(g[k], h[k]);
  }
  auto a = mkspline<oa>(G, wa.first, wa.second, "a");
  auto a2 = mkspline<oa>(G, wc.first, wc.second, "d");
  auto b = mkspline<ob>(H, wb.first, wb.second, "b");
  Snap<oa> sa(a), sa2(a2);
  Snap<ob> sb(b);
  // the same operand placed on the shared grid instance (only constructible when the window fits; used on equal paths, where n1 == n2)
  auto shared_b = [&]() { return Spline<Real, ob>(Support<Real>(G, wb.first, wb.second), b.getCoefficients()); };
  Real k0 = Real::var("k0"), k1 = Real::var("k1"), k2 = Real::var("k2");
  auto after = [&](const std::string &key) {
    unchanged(key + "/a", a, sa, g);
    unchanged(key + "/b", b, sb, h);
  };
  bool a_iv = wa.second > wa.first + 1;

  { Spline<Real, std::max(oa, ob)> r(G); entry("add", differ, true, [&] { r = a + b; }, [&] { same_spline("add", r, a + shared_b()); }); after("add"); }
  { Spline<Real, std::max(oa, ob)> r(G); entry("sub", differ, true, [&] { r = a - b; }, [&] { same_spline("sub", r, a - shared_b()); }); after("sub"); }
  { Spline<Real, oa + ob> r(G); entry("mul", differ, true, [&] { r = a * b; }, [&] { same_spline("mul", r, a * shared_b()); }); after("mul"); }
  { Spline<Real, std::max(oa, ob)> r(G); entry("add-reversed", differ, true, [&] { r = b + a; }, [&] { same_spline("add-reversed", r, shared_b() + a); }); after("add-reversed"); }
  if constexpr (ob <= oa) {
    { auto t = a; entry("iadd", differ, true, [&] { t += b; }, [&] { auto u = a; u += shared_b(); same_spline("iadd", t, u); }); after("iadd");
      if (E.sat(differ) && !E.sat(!differ)) unchanged("iadd/target-after-throw", t, sa, g); }
    { auto t = a; entry("isub", differ, true, [&] { t -= b; }, [&] { auto u = a; u -= shared_b(); same_spline("isub", t, u); }); after("isub");
      if (E.sat(differ) && !E.sat(!differ)) unchanged("isub/target-after-throw", t, sa, g); }
  }
  if constexpr (oa == ob) {
    for (int pos = 0; pos < 3; pos++) {
      std::vector<Spline<Real, oa>> S;
      if (pos == 0) S = {b, a, a2};
      if (pos == 1) S = {a, b, a2};
      if (pos == 2) S = {a, a2, b};
      std::vector<Real> C{k0, k1, k2};
      Spline<Real, oa> r(G);
      std::string key = "lincomb/pos" + std::to_string(pos);
      entry(key, differ, true, [&] { r = bspline::linearCombination(C, S); }, [&] {
        std::vector<Spline<Real, oa>> S2 = S;
        S2[pos] = shared_b();
        same_spline(key, r, bspline::linearCombination(C.begin(), C.end(), S2.begin(), S2.end()));
      });
      after(key);
    }
  }
  { Real r(0); entry("scalar-product", differ, true, [&] { r = ScalarProduct{}(a, b); }, [&] { E.prove("scalar-product/same-as-shared-grid", sym::eq(r, ScalarProduct{}(a, shared_b()))); }); after("scalar-product"); }
  { Real r(0); entry("bilinear", differ, true, [&] { r = BilinearForm{Dx<1>{}, X<1>{}}(b, a); }, [&] { E.prove("bilinear/same-as-shared-grid", sym::eq(r, BilinearForm{Dx<1>{}, X<1>{}}(shared_b(), a))); }); after("bilinear"); }
  { Real r(0); auto f = [&](const Real &x) { return x * k0 + Real(1); };
    entry("integrate", differ, true, [&] { r = integrate<1>(f, a, b); }, [&] { E.prove("integrate/same-as-shared-grid", sym::eq(r, integrate<1>(f, a, shared_b()))); }); after("integrate"); }
  // operators with a spline factor: refusal demanded whenever the operand has at least one interval
  { Spline<Real, oa + ob> r(G); entry("spline-operator-apply", differ, a_iv, [&] { r = SplineOperator{b} * a; }, [&] { same_spline("spline-operator-apply", r, SplineOperator{shared_b()} * a); }); after("spline-operator-apply"); }
  { Real r(0); entry("spline-operator-linear-form", differ, a_iv, [&] { r = LinearForm{SplineOperator{b}}(a); }, [&] { E.prove("spline-operator-linear-form/same-as-shared-grid", sym::eq(r, LinearForm{SplineOperator{shared_b()}}(a))); }); after("spline-operator-linear-form"); }
  {
    size_t lo = std::max(wa.first, wc.first), hi = std::min(wa.second, wc.second);
    bool common = lo + 1 < hi;
    Real r(0), r2(0);
    entry("spline-operator-bilinear-form", differ, common, [&] { r = BilinearForm{SplineOperator{b}, IdentityOperator{}}(a, a2); },
          [&] { E.prove("spline-operator-bilinear-form/same-as-shared-grid", sym::eq(r, BilinearForm{SplineOperator{shared_b()}, IdentityOperator{}}(a, a2))); });
    entry("spline-operator-bilinear-form-2nd", differ, common, [&] { r2 = BilinearForm{Dx<1>{}, X<1>{} * SplineOperator{b}}(a, a2); },
          [&] { E.prove("spline-operator-bilinear-form-2nd/same-as-shared-grid", sym::eq(r2, BilinearForm{Dx<1>{}, X<1>{} * SplineOperator{shared_b()}}(a, a2))); });
    after("spline-operator-bilinear-form");
    unchanged("spline-operator-bilinear-form/a2", a2, sa2, g);
  }
  // one operator / form OBJECT used repeatedly: a refusal must be repeated, not remembered as "already checked"
  {
    SplineOperator opb{b};
    for (int rep = 0; rep < 3; rep++) {
      Spline<Real, oa + ob> r(G);
      entry("spline-operator-object-reused/apply" + std::to_string(rep), differ, a_iv, [&] { r = opb * a; }, [&] { same_spline("spline-operator-object-reused", r, SplineOperator{shared_b()} * a); });
    }
    LinearForm lf{SplineOperator{b}};
    for (int rep = 0; rep < 2; rep++) {
      Real r(0);
      entry("linear-form-object-reused/" + std::to_string(rep), differ, a_iv, [&] { r = lf(a); }, [&] { E.prove("linear-form-object-reused/same-as-shared-grid", sym::eq(r, LinearForm{SplineOperator{shared_b()}}(a))); });
    }
    after("spline-operator-object-reused");
  }
  // objects with a history: r took part in operations on G, then is assigned (move / copy / lower order) a spline living on H;
  // every later two-spline operation with a spline on G must be refused exactly when the grids differ
  if constexpr (ob <= oa) {
    for (int how = 0; how < 3; how++) {
      Spline<Real, oa> r(a);
      r += a2;
      (void)(r == a);
      (void)ScalarProduct{}(r, a2);
      if (how == 0) { if constexpr (oa == ob) r = b * k1; else continue; }    // move assignment from a temporary
      if (how == 1) { if constexpr (oa == ob) { auto tmp = b; r = tmp; } else continue; }  // copy assignment
      if (how == 2) { if constexpr (ob < oa) r = b; else continue; }          // lower-order assignment
      std::string hk = "history" + std::to_string(how) + "/";
      { Spline<Real, oa> q(G); entry(hk + "add", differ, true, [&] { q = r + a2; }, [&] {}); }
      { Spline<Real, oa + oa> q(G); entry(hk + "mul", differ, true, [&] { q = a2 * r; }, [&] {}); }
      { Real q(0); entry(hk + "scalar-product", differ, true, [&] { q = ScalarProduct{}(r, a2); }, [&] {}); }
      { auto t = r; entry(hk + "iadd", differ, true, [&] { t += a2; }, [&] {}); }
      { auto t = a2; entry(hk + "iadd-reversed", differ, true, [&] { t += r; }, [&] {}); }
      { Spline<Real, oa> q(G); entry(hk + "lincomb", differ, true, [&] { q = bspline::linearCombination(std::vector<Real>{k0, k1}, std::vector<Spline<Real, oa>>{a2, r}); }, [&] {}); }
    }
  }
  // a generator refuses a supplied grid that does not match its knots (simple knots = the points of G, one end knot doubled)
  {
    std::vector<Real> knots = g;
    knots.push_back(g.back());
    std::vector<Spline<Real, 1>> B;
    entry("generator-supplied-grid", differ, true, [&] { bspline::BSplineGenerator<Real> gen(knots, H); B = gen.template generateBSplines<1>(); },
          [&] {
            bspline::BSplineGenerator<Real> gen(knots, G);
            auto B2 = gen.template generateBSplines<1>();
            stats().obligations++;
            if (B.size() == B2.size()) stats().discharged++; else E.fail("generator-supplied-grid/same-as-shared-grid", "structure", "different number of functions");
            for (size_t i = 0; i < std::min(B.size(), B2.size()); i++) same_spline("generator-supplied-grid", B[i], B2[i]);
          }, true);
  }
  if (stats().paths == 0 && n1 == n2) E.control("grids-can-differ-and-can-agree", differ);
}

template <size_t oa, size_t ob>
void add(std::vector<Case> &cases) {
  for (size_t n1 = 2; n1 <= MAXN; n1++)
    for (size_t n2 = 2; n2 <= MAXN; n2++) {
      auto pick = [](size_t n) {
        std::vector<std::pair<size_t, size_t>> w{{0, 0}, {0, 1}, {0, n}};
        if (n >= 3) { w.push_back({0, 2}); w.push_back({n - 2, n}); w.push_back({1, 2}); }
        return w;
      };
      for (auto wa : pick(n1))
        for (auto wb : pick(n2)) {
          std::pair<size_t, size_t> wc = (wa.second > wa.first + 1) ? std::pair<size_t, size_t>{0, n1} : std::pair<size_t, size_t>{n1 - 2, n1};
          cases.push_back({"grids/o" + std::to_string(oa) + "x" + std::to_string(ob) + "/n" + std::to_string(n1) + "," + std::to_string(n2) + "/wa" + W(wa) + "/wb" + W(wb),
                           [=] { grids_case<oa, ob>(n1, n2, wa, wb, wc); }});
        }
    }
}
// large grids: two independent symbolic grids of sizes n1, n2 (for n1 == n2 the first differing point - anywhere - is found by the
// solver); a slim set of entry points, refusal <=> the grids differ, right error code; no value comparison (that is the small cases' part)
template <size_t o>
void grids_large_case(size_t n1, size_t n2, std::pair<size_t, size_t> wa, std::pair<size_t, size_t> wb) {
  auto g = gridvars(n1, "g"), h = gridvars(n2, "h");
  Grid<Real> G(g), H(h);
  Bool differ = Bool::of(n1 != n2);
  if (n1 == n2) {
    differ = Bool::F();
    for (size_t k = 0; k < n1; k++) differ = differ || sym::ne(g[k], h[k]);
  }
  auto a = mkspline<o>(G, wa.first, wa.second, "a");
  auto b = mkspline<o>(H, wb.first, wb.second, "b");
  Real k0 = Real::var("k0"), k1 = Real::var("k1");
  auto none = [] {};
  { Spline<Real, o> r(G); entry("add", differ, true, [&] { r = a + b; }, none); }
  { Spline<Real, o + o> r(G); entry("mul", differ, true, [&] { r = b * a; }, none); }
  { auto t = a; entry("iadd", differ, true, [&] { t += b; }, none); }
  { Real r(0); entry("scalar-product", differ, true, [&] { r = ScalarProduct{}(a, b); }, none); }
  { Spline<Real, o> r(G); entry("lincomb", differ, true, [&] { r = bspline::linearCombination(std::vector<Real>{k0, k1}, std::vector<Spline<Real, o>>{a, b}); }, none); }
  { Spline<Real, o> r(G); entry("lincomb-reversed", differ, true, [&] { r = bspline::linearCombination(std::vector<Real>{k0, k1}, std::vector<Spline<Real, o>>{b, a}); }, none); }
  if (wa.second > wa.first + 1) { Spline<Real, o + o> r(G); entry("spline-operator-apply", differ, true, [&] { r = SplineOperator{b} * a; }, none); }
  stats().obligations++;
  if ((G == H) == (H == G) && (G != H) == !(G == H)) stats().discharged++; else Engine::get().fail("grid-equality-symmetric", "structure", "Grid == not symmetric or != not its negation");
  if (stats().paths == 0 && n1 == n2) Engine::get().control("grids-can-differ-and-can-agree", differ);
}
void hx_cases(std::vector<Case> &cases) {
#ifdef LARGE_GRIDS
  for (size_t n = 8; n <= 17; n++) {
    cases.push_back({"grids-large/o1/n" + std::to_string(n) + "/whole", [=] { grids_large_case<1>(n, n, {0, n}, {0, n}); }});
    cases.push_back({"grids-large/o0/n" + std::to_string(n) + "/ends", [=] { grids_large_case<0>(n, n, {0, 2}, {n - 2, n}); }});
    cases.push_back({"grids-large/o0/n" + std::to_string(n) + "/empty", [=] { grids_large_case<0>(n, n, {0, 0}, {0, 0}); }});
  }
  for (auto [n1, n2, wa, wb] : std::vector<std::tuple<size_t, size_t, std::pair<size_t, size_t>, std::pair<size_t, size_t>>>{
           {8, 10, {0, 8}, {5, 10}}, {8, 10, {0, 8}, {7, 9}}, {10, 8, {7, 9}, {0, 8}}, {10, 8, {8, 10}, {0, 3}}, {9, 12, {0, 2}, {10, 12}}, {16, 17, {0, 16}, {0, 17}}})
    cases.push_back({"grids-large/o1/n" + std::to_string(n1) + "," + std::to_string(n2) + "/wa" + W(wa) + "/wb" + W(wb), [=] { grids_large_case<1>(n1, n2, wa, wb); }});
#endif
  add<1, 1>(cases);
  add<2, 0>(cases);
#ifdef MORE_ORDERS
  add<0, 0>(cases);
  add<2, 2>(cases);
  add<1, 2>(cases);
#endif
}
