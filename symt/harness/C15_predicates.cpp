// C15: predicates tell the truth.
// Real code executed: Spline::isZero, Spline::checkOverlap, Spline::operator==/!=, Support::operator==/hasSameGrid/
// containsIntervals/front/back, Grid::operator== (pointer fast path and element-wise slow path).
#include "../harness.h"
using namespace hx;
#ifndef MAXN
#define MAXN 4
#endif
#ifndef MAXO
#define MAXO 2
#endif

template <size_t o>
void iszero_case(size_t n, std::pair<size_t, size_t> w) {
  auto &E = Engine::get();
  auto g = gridvars(n);
  Grid<Real> grid(g);
  Real x = Real::var("x");
  auto s = mkspline<o>(grid, w.first, w.second, "c");
  bool z = s.isZero();  // forks on every coefficient until the first non-zero one
  Bool anynz = Bool::F();
  for (auto &cs : s.getCoefficients())
    for (auto &c : cs) anynz = anynz || sym::ne(c, Real(0));
  if (z) {
    for (size_t gi = 0; gi + 1 < n; gi++) E.prove("true-means-zero-everywhere/iv" + std::to_string(gi), sym::eq(piece_at(s, g, gi, x), Real(0)));
    E.prove("true-means-all-coefficients-zero", !anynz);
  } else {
    E.prove("false-means-some-coefficient-nonzero", anynz);
    Bool somewhere = Bool::F();
    for (size_t gi = 0; gi + 1 < n; gi++) somewhere = somewhere || (sym::le(g[gi], x) && sym::le(x, g[gi + 1]) && sym::ne(piece_at(s, g, gi, x), Real(0)));
    E.witness("false-means-nonzero-somewhere", somewhere);
  }
  // the derived zero: s - s and 0 * s are zero splines
  if (stats().paths == 0) {
    stats().obligations += 2;
    if ((s - s).isZero()) stats().discharged++; else E.fail("s-minus-s-is-zero", "structure", "(s - s).isZero() is false");
    if ((s * Real(0)).isZero()) stats().discharged++; else E.fail("zero-times-s-is-zero", "structure", "(s*0).isZero() is false");
  }
}

template <size_t oa, size_t ob>
void overlap_case(size_t n) {
  auto &E = Engine::get();
  auto g = gridvars(n);
  Grid<Real> grid(g), grid2(g);
  for (auto wa : windows(n))
    for (auto wb : windows(n)) {
      auto a = mkspline<oa>(grid, wa.first, wa.second, "a");
      auto b = mkspline<ob>(grid2, wb.first, wb.second, "b");  // equal grid held in a distinct object
      size_t lo = std::max(wa.first, wb.first), hi = std::min(wa.second, wb.second);
      bool expect = wa.second > wa.first + 1 && wb.second > wb.first + 1 && lo + 1 < hi;
      stats().obligations += 2;
      if (a.checkOverlap(b) == expect) stats().discharged++; else E.fail("overlap/wa" + W(wa) + "/wb" + W(wb), "structure", std::string("checkOverlap returned ") + (expect ? "false" : "true"));
      if (b.checkOverlap(a) == expect) stats().discharged++; else E.fail("overlap-sym/wa" + W(wa) + "/wb" + W(wb), "structure", "checkOverlap not symmetric");
      // equivalently: the product can be non-zero only if they overlap
      if (!expect) {
        stats().obligations++;
        if ((a * b).isZero()) stats().discharged++; else E.fail("no-overlap-product-zero/wa" + W(wa) + "/wb" + W(wb), "structure", "product of non-overlapping splines is not zero");
      }
    }
}

template <size_t o>
void equal_case(size_t n, std::pair<size_t, size_t> wa, std::pair<size_t, size_t> wb, int gridmode) {
  // gridmode 0: shared grid object, 1: distinct object with the same points, 2: distinct object with independent symbolic points
  auto &E = Engine::get();
  auto g = gridvars(n);
  Grid<Real> grid(g);
  std::vector<Real> h = gridmode == 2 ? gridvars(n, "h") : g;
  Grid<Real> gridb = gridmode == 0 ? grid : Grid<Real>(h);
  auto a = mkspline<o>(grid, wa.first, wa.second, "a");
  auto b = mkspline<o>(gridb, wb.first, wb.second, "b");
  bool e = (a == b);  // forks on grid points (mode 2) and on coefficients
  bool same_window = wa == wb;
  Bool grids_equal = Bool::T();
  for (size_t k = 0; k < n; k++) grids_equal = grids_equal && sym::eq(g[k], h[k]);
  Bool coeffs_equal = Bool::T();
  if (same_window)
    for (size_t i = 0; i < a.getCoefficients().size(); i++)
      for (size_t j = 0; j <= o; j++) coeffs_equal = coeffs_equal && sym::eq(a.getCoefficients()[i][j], b.getCoefficients()[i][j]);
  Bool spec = Bool::of(same_window) && grids_equal && coeffs_equal;
  E.prove("equality-iff-same-window-grid-coefficients", sym::iff(Bool::of(e), spec));
  stats().obligations += 3;
  if ((b == a) == e) stats().discharged++; else E.fail("symmetric", "structure", "a==b differs from b==a");
  if ((a != b) == !e) stats().discharged++; else E.fail("not-equal-is-negation", "structure", "a!=b is not the negation of a==b");
  auto cp = a;
  if ((cp == a) && (a == a) && !(a != a)) stats().discharged++; else E.fail("reflexive-and-copy", "structure", "a==a or copy==a is false");
  if (stats().paths == 0 && same_window && wa.second > wa.first + 1) E.control("equality-negated-spec", sym::iff(Bool::of(e), !spec));
}

template <size_t o>
void add(std::vector<Case> &cases) {
  for (size_t n = 2; n <= MAXN; n++) {
    for (auto w : windows(n)) cases.push_back({"iszero/o" + std::to_string(o) + "/n" + std::to_string(n) + "/w" + W(w), [=] { iszero_case<o>(n, w); }});
    for (auto wa : windows(n))
      for (auto wb : windows(n))
        for (int gm = 0; gm < 3; gm++) {
          if (gm == 2 && n > 3) continue;  // independent second grid: sizes 2..3
          if (wa != wb && gm == 2) continue;
          cases.push_back({"equal/o" + std::to_string(o) + "/n" + std::to_string(n) + "/wa" + W(wa) + "/wb" + W(wb) + "/grid" + std::to_string(gm), [=] { equal_case<o>(n, wa, wb, gm); }});
        }
  }
  if constexpr (o > 0) add<o - 1>(cases);
}
template <size_t oa, size_t ob>
void add_ov(std::vector<Case> &cases) {
  for (size_t n = 2; n <= MAXN + 1; n++) cases.push_back({"overlap/o" + std::to_string(oa) + "x" + std::to_string(ob) + "/n" + std::to_string(n), [=] { overlap_case<oa, ob>(n); }});
}
#ifndef LARGEN
#define LARGEN 17
#endif
void hx_cases(std::vector<Case> &cases) {
  add<MAXO>(cases);
  // large grids: the element-wise comparison of two independent symbolic grids of 8..LARGEN points (every position of the first
  // difference is a solver-decided path), equal-but-distinct grids, and isZero on long coefficient vectors
  for (size_t n = 8; n <= LARGEN; n++) {
    cases.push_back({"equal-large/o0/n" + std::to_string(n) + "/whole/grid2", [=] { equal_case<0>(n, {0, n}, {0, n}, 2); }});
    cases.push_back({"equal-large/o1/n" + std::to_string(n) + "/tail/grid1", [=] { equal_case<1>(n, {n / 2, n}, {n / 2, n}, 1); }});
    cases.push_back({"equal-large/o0/n" + std::to_string(n) + "/empty/grid2", [=] { equal_case<0>(n, {0, 0}, {0, 0}, 2); }});
    cases.push_back({"iszero-large/o1/n" + std::to_string(n), [=] { iszero_case<1>(n, {n % 3, n}); }});
  }
  cases.push_back({"overlap-large/o0x1/n9", [=] { overlap_case<0, 1>(9); }});
  add_ov<0, 0>(cases);
  add_ov<1, 2>(cases);
  add_ov<2, 0>(cases);
  add_ov<MAXO, MAXO>(cases);
}
