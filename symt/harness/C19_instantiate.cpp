// C19: explicit instantiation of the core templates with the strict scalar archetype - every member function is
// compiled, including those no other harness calls. Fails to compile if any member needs an undocumented operation.
#include "../harness.h"
#include <bspline/interpolation/interpolation.h>
#include <bspline/operators/SplineOperator.h>
using namespace hx;
using namespace bspline::operators;
using namespace bspline::integration;
template class bspline::support::Grid<Real>;
template class bspline::support::Support<Real>;
template class bspline::Spline<Real, 0>;
template class bspline::Spline<Real, 1>;
template class bspline::Spline<Real, 2>;
template class bspline::Spline<Real, 3>;
template class bspline::BSplineGenerator<Real>;
template class bspline::operators::SplineOperator<Real, 1>;
template class bspline::operators::ScalarMultiplication<Real, X<1>>;
template class bspline::operators::ScalarMultiplication<int, Dx<1>>;
template class bspline::operators::OperatorSum<X<1>, Dx<1>, AdditionOperation::SUBTRACTION>;
template class bspline::operators::OperatorProduct<X<2>, Dx<1>>;
template class bspline::integration::BilinearForm<X<1>, Dx<1>>;
template class bspline::integration::LinearForm<X<2>>;

struct S3 final : bspline::interpolation::internal::ISolver<Real> {
  size_t n;
  std::vector<Real> m, bb, xx;
  explicit S3(size_t p) : n(p), m(p * p, Real(0)), bb(p, Real(0)), xx(p, Real(0)) {}
  Real &M(size_t i, size_t j) override { return m.at(i * n + j); }
  Real &b(size_t i) override { return bb.at(i); }
  Real &x(size_t i) override { return xx.at(i); }
  void solve() override {
    for (size_t i = 0; i < n; i++) xx[i] = Real::var("sol" + std::to_string(i));
  }
};
static void smoke() {
  auto &E = Engine::get();
  auto g = gridvars(3);
  Grid<Real> grid(g);
  auto s = mkspline<2>(grid, 0, 3, "c");
  Real x = Real::var("x");
  E.assume(sym::ne(x, Real(0)));  // x is used as a divisor below
  // every free-standing generic entry point is instantiated and used once
  auto B = bspline::generateBSplines<2>(std::vector<Real>{g[0], g[0], g[1], g[2], g[2]});
  auto r = (Real(2) * X<1>{} * Dx<1>{} - 1 + Real(3) / x * IdentityOperator{}) * s;
  (void)r;
  auto itp = bspline::interpolation::interpolate<Real, 3, S3>(Support<Real>::createWholeGrid(grid), std::vector<Real>{x, x, x});
  (void)itp;
  Real v = ScalarProduct{}(s, B.at(0)) + LinearForm{Dx<1>{}}(s) + BilinearForm{X<1>{}}(s, s);
  E.prove("scalar-product-symmetric", sym::eq(ScalarProduct{}(s, B.at(0)), ScalarProduct{}(B.at(0), s)));
  E.prove("self-consistency", sym::eq(v, v));
  E.control("not-vacuous", sym::eq(ScalarProduct{}(s, s), Real(-1)));
}
void hx_cases(std::vector<Case> &cases) { cases.push_back({"instantiate/smoke", [] { smoke(); }}); }
