// C09 (object lifetime): results and by-value getters stay usable after the objects they came from are gone.
// Built with AddressSanitizer in both tiers. Every pattern below is well-defined on the documented API: values returned BY VALUE
// (BSplineGenerator::getGrid, Grid::getData, all arithmetic/operator results) may be bound to a const reference or kept after the
// source temporary has been destroyed; objects that share a grid keep it alive on their own.
#include "../harness.h"
#include <bspline/operators/SplineOperator.h>
using namespace hx;
using namespace bspline::operators;
using namespace bspline::integration;

template <class F>
auto dies_first(F f) { return f(); }  // the callee's locals are destroyed before the result is used

static void lifetime_case(size_t n) {
  auto &E = Engine::get();
  auto g = gridvars(n);
  Real x = Real::var("x");
  // (1) a by-value getter of a temporary generator bound to a const reference (lifetime extension of the returned Grid)
  {
    std::vector<Real> knots = g;
    knots.push_back(g.back());
    const auto &grid = bspline::BSplineGenerator<Real>(knots).getGrid();
    E.prove("generator-getGrid-of-temporary/size", Bool::of(grid.size() == n));
    for (size_t k = 0; k < n; k++) E.prove("generator-getGrid-of-temporary/point", sym::eq(grid[k], g[k]));
    size_t cnt = 0;
    for (const auto &p : bspline::BSplineGenerator<Real>(knots).getGrid()) { E.prove("range-for-over-getGrid-of-temporary", sym::eq(p, g[cnt])); cnt++; }
    E.prove("range-for-over-getGrid-of-temporary/count", Bool::of(cnt == n));
  }
  // (2) the shared data of a temporary grid outlives it
  {
    auto data = Grid<Real>(g).getData();
    const auto &data2 = Grid<Real>(g).getData();
    E.prove("grid-getData-of-temporary", sym::eq((*data)[n - 1], g[n - 1]) && sym::eq(data2->front(), g[0]));
  }
  // (3) supports and splines built from temporaries that are destroyed before use
  {
    Support<Real> sup = dies_first([&] { Grid<Real> tmp(g); return Support<Real>::createWholeGrid(tmp); });
    E.prove("support-outlives-its-grid-object", sym::eq(sup.front(), g[0]) && sym::eq(sup.back(), g[n - 1]) && sym::eq(sup.at(n - 1), g[n - 1]));
    auto s = dies_first([&] { Grid<Real> tmp(g); return mkspline<1>(tmp, 0, n, "c"); });
    E.prove("spline-outlives-its-grid-object", sym::eq(s.front(), g[0]) && sym::eq(s.getSupport().getGrid()[n - 1], g[n - 1]));
    Real v = s(x);
    Bool ok = sym::lt(x, g[0]) || sym::gt(x, g[n - 1]);
    for (size_t j = 0; j + 1 < n; j++) ok = ok || (sym::le(g[j], x) && sym::le(x, g[j + 1]) && sym::eq(v, piece_at(s, g, j, x)));
    E.prove("spline-outlives-its-grid-object/evaluation", ok);
    // results of expressions whose operands were temporaries
    auto r = dies_first([&] { Grid<Real> tmp(g); auto a = mkspline<1>(tmp, 0, n, "a"); auto b = mkspline<0>(tmp, 0, n, "b"); return (a + b) * Real(2) - a; });
    E.prove("result-outlives-its-operands", sym::eq(r.back(), g[n - 1]) && Bool::of(r.getCoefficients().size() == n - 1));
    auto moved = dies_first([&] { auto t = s; auto u = std::move(t); return std::make_pair(u, t); });
    E.prove("moved-pair-outlives-scope", sym::eq(moved.first.front(), g[0]) && Bool::of(!moved.second.getSupport().containsIntervals()));
  }
  // (4) operators and forms keep their own copy of a spline factor
  {
    Grid<Real> grid(g);
    auto s = mkspline<1>(grid, 0, n, "c");
    auto op = dies_first([&] { auto f = mkspline<1>(grid, 0, n, "f"); return X<1>{} * SplineOperator{f} + IdentityOperator{}; });
    auto r = op * s;
    E.prove("operator-outlives-its-factor", Bool::of(r.getCoefficients().size() == n - 1) && sym::eq(r.front(), g[0]));
    auto form = dies_first([&] { auto f = mkspline<1>(grid, 0, n, "f"); return BilinearForm{SplineOperator{f}, Dx<1>{}}; });
    Real q = form(s, s);
    auto lf = dies_first([&] { auto f = mkspline<0>(grid, 0, n, "h"); return LinearForm{SplineOperator{f}}; });
    Real q2 = lf(s);
    E.prove("form-outlives-its-factor", sym::eq(q, q) && sym::eq(q2, q2));
    // a reference to the coefficients/support of a live object stays valid across const operations on it
    const auto &cf = s.getCoefficients();
    const auto &sp = s.getSupport();
    (void)(s + s); (void)s(x); (void)(X<1>{} * s); (void)ScalarProduct{}(s, s);
    E.prove("references-into-a-live-object", sym::eq(cf[0][0], s.getCoefficients()[0][0]) && sym::eq(sp.front(), g[0]));
  }
  if (stats().paths == 0) E.control("a-false-claim-is-refuted", sym::eq(g[0], g[1]));
}
void hx_cases(std::vector<Case> &cases) {
  for (size_t n = 2; n <= 3; n++) cases.push_back({"lifetime/n" + std::to_string(n), [=] { lifetime_case(n); }});
}
