// C14: value semantics - operations never disturb their operands or earlier results.
// Real code executed: every const member/free operation of Spline (evaluation, predicates, arithmetic, operator
// application, forms, linearCombination, copy construction), copy/move construction and assignment, the in-place
// operators incl. their throwing paths (different grids), Support/Grid copies.
// Two kinds of observation: (i) the public state (window, coefficients, grid points, identity of the shared grid storage)
// and (ii) behaviour: after any history the object must answer exactly like an object freshly constructed from its
// public state ("history independence" - exposes hidden mutable state such as caches).
#include "../harness.h"
#include <bspline/operators/SplineOperator.h>
using namespace hx;
using namespace bspline::operators;
using namespace bspline::integration;
using bspline::exceptions::BSplineException;
#ifndef MAXN
#define MAXN 4
#endif

template <size_t o>
struct Snap {
  size_t st, en;
  std::vector<std::array<Real, o + 1>> c;
  const void *data;
  explicit Snap(const Spline<Real, o> &s)
      : st(s.getSupport().getStartIndex()), en(s.getSupport().getEndIndex()), c(s.getCoefficients()), data(s.getSupport().getGrid().getData().get()) {}
};
template <size_t o>
Spline<Real, o> fresh(const Spline<Real, o> &s) {
  const auto &gr = s.getSupport().getGrid();
  std::vector<Real> pts(gr.begin(), gr.end());
  return Spline<Real, o>(Support<Real>(Grid<Real>(pts), s.getSupport().getStartIndex(), s.getSupport().getEndIndex()), s.getCoefficients());
}
// public state equals the snapshot
template <size_t o>
void unchanged(const std::string &key, const Spline<Real, o> &s, const Snap<o> &sn, const std::vector<Real> &pts, bool same_storage = true) {
  auto &E = Engine::get();
  stats().obligations++;
  bool ok = s.getSupport().getStartIndex() == sn.st && s.getSupport().getEndIndex() == sn.en && s.getCoefficients().size() == sn.c.size() &&
            s.getSupport().getGrid().size() == pts.size() && (!same_storage || s.getSupport().getGrid().getData().get() == sn.data);
  if (!ok) {
    E.fail(key + "/public-state-unchanged", "structure", "window, coefficient count, grid size or shared grid storage changed");
    return;
  }
  stats().discharged++;
  for (size_t i = 0; i < sn.c.size(); i++)
    for (size_t j = 0; j <= o; j++) E.prove(key + "/coefficient-unchanged", sym::eq(s.getCoefficients()[i][j], sn.c[i][j]));
  for (size_t k = 0; k < pts.size(); k++) E.prove(key + "/grid-point-unchanged", sym::eq(s.getSupport().getGrid()[k], pts[k]));
}
// behaviour equals that of a freshly constructed object with the same public state
// hist 0: evaluation observers; hist 1: predicate observers (kept apart so that their forks do not multiply)
template <size_t o>
void behaves_like_fresh(const std::string &key, const Spline<Real, o> &s, const Real &x2, int hist, bool derived = false) {
  auto &E = Engine::get();
  auto f = fresh(s);
  if (hist == 0) {
    E.prove(key + "/evaluates-like-fresh", sym::eq(s(x2), f(x2)));
    E.prove(key + "/integrates-like-fresh", sym::eq(LinearForm{}(s), LinearForm{}(f)));
    stats().obligations++;
    if ((s == f) && !(s != f)) stats().discharged++; else E.fail(key + "/equals-fresh", "structure", "object differs from a fresh object with the same public state");
    if (s.getSupport().size() > 0) {
      E.prove(key + "/front-like-fresh", sym::eq(s.front(), f.front()));
      E.prove(key + "/back-like-fresh", sym::eq(s.back(), f.back()));
    }
  } else {
    stats().obligations++;
    if (s.isZero() == f.isZero()) stats().discharged++; else E.fail(key + "/iszero-like-fresh", "structure", "isZero() depends on history");
  }
  // derived quantities (no new forks): forms, operator application, arithmetic with a partner on the object's grid
  if (hist == 1 && derived) {
    size_t n = s.getSupport().getGrid().size();
    auto q = mkspline<1>(s.getSupport().getGrid(), 0, n, "q");
    E.prove(key + "/scalar-product-like-fresh", sym::eq(ScalarProduct{}(s, q), ScalarProduct{}(f, q)));
    E.prove(key + "/bilinear-form-like-fresh", sym::eq(BilinearForm{X<1>{}, Dx<1>{}}(q, s), BilinearForm{X<1>{}, Dx<1>{}}(q, f)));
    stats().obligations += 3;
    if ((X<1>{} * s) == (X<1>{} * f)) stats().discharged++; else E.fail(key + "/operator-application-like-fresh", "structure", "X<1>*s depends on history");
    if ((s + q) == (f + q) && (q * s) == (q * f)) stats().discharged++; else E.fail(key + "/arithmetic-like-fresh", "structure", "s+q or q*s depends on history");
    if (s.checkOverlap(q) == f.checkOverlap(q)) stats().discharged++; else E.fail(key + "/overlap-like-fresh", "structure", "checkOverlap depends on history");
  }
}

template <size_t o>
void const_ops_case(size_t n, std::pair<size_t, size_t> wa, std::pair<size_t, size_t> wb, int hist) {
  auto &E = Engine::get();
  auto g = gridpoints(n);
  Grid<Real> grid(g);
  Real x1 = Real::var("x1"), x2 = Real::var("x2"), k = Real::var("k");
  E.assume(sym::ne(k, Real(0)));
  auto a = mkspline<o>(grid, wa.first, wa.second, "a");
  auto b = mkspline<1>(grid, wb.first, wb.second, "b");
  auto b2 = mkspline<o>(Grid<Real>(g), wb.first, wb.second, "e");  // equal grid held in a distinct object
  Snap<o> sa(a);
  Snap<1> sb(b);
  Snap<o> sb2(b2);
  // a history of const operations; every result is discarded
  if (hist == 0) (void)a(x1);
  if (hist == 1) { (void)a.isZero(); (void)b2.isZero(); }
  if (wa.second > wa.first) {
    (void)a.front();
    (void)a.back();
  }
  { auto r = a + b; (void)r; }
  { auto r = a - b; (void)r; }
  { auto r = a * b; (void)r; }
  { auto r = b * a; (void)r; }
  { auto r = a + b2; (void)r; }
  { auto r = b2 * a; (void)r; }
  { auto r = a * k; (void)r; }
  { auto r = k * a; (void)r; }
  { auto r = a / k; (void)r; }
  { auto r = -a; (void)r; }
  (void)a.checkOverlap(b);
  (void)(a == b2);
  (void)(b2 != a);
  { auto r = Dx<1>{} * a; (void)r; }
  { auto r = (X<1>{} * Dx<1>{} + k) * a; (void)r; }
  { auto r = SplineOperator{b} * a; (void)r; }
  { auto r = SplineOperator{a} * b; (void)r; }
  (void)ScalarProduct{}(a, b);
  (void)ScalarProduct{}(b2, a);
  (void)BilinearForm{X<1>{}, Dx<1>{}}(a, b);
  (void)LinearForm{X<1>{}}(a);
  { std::vector<Spline<Real, o>> S{a, b2, a}; std::vector<Real> C{k, x1, k}; auto r = bspline::linearCombination(C, S); (void)r; }
  { Spline<Real, o> cp(a); if (hist == 0) (void)cp(x1); }
  { Spline<Real, o> cp(a); Spline<Real, o> mv(std::move(cp)); (void)mv; }
  { Support<Real> sc(a.getSupport()); Support<Real> sm(std::move(sc)); (void)sm; Grid<Real> gc(a.getSupport().getGrid()); (void)gc; }
  unchanged("after-const-history/a", a, sa, g);
  unchanged("after-const-history/b", b, sb, g);
  unchanged("after-const-history/b2", b2, sb2, g);
  behaves_like_fresh("after-const-history/a", a, x2, hist, true);
  if (stats().paths == 0 && hist == 0) E.control("perturbed-observation", sym::eq(a(x2), fresh(a)(x2) + Real(1)));
  behaves_like_fresh("after-const-history/b2", b2, x2, hist);
  if (hist == 1) {
    // predicates on derived objects after the operand has been queried
    auto r = a * x1;  // x1 is an arbitrary scalar here (may be zero)
    behaves_like_fresh("after-const-history/scaled-result", r, x2, 1);
    auto d = a - a;
    behaves_like_fresh("after-const-history/difference", d, x2, 1);
    Spline<Real, o> cp(a);
    cp *= x1;
    behaves_like_fresh("after-const-history/scaled-copy", cp, x2, 1);
  }
}

template <size_t o>
void mutation_case(size_t n, std::pair<size_t, size_t> wa, std::pair<size_t, size_t> wb, int mut, int hist) {
  auto &E = Engine::get();
  auto g = gridpoints(n);
  Grid<Real> grid(g);
  Real x1 = Real::var("x1"), x2 = Real::var("x2"), k = Real::var("k");
  auto a = mkspline<o>(grid, wa.first, wa.second, "a");
  auto b = mkspline<o>(grid, wb.first, wb.second, "b");
  Snap<o> sa(a), sb(b);
  // history on every object involved
  auto touch = [&](const Spline<Real, o> &s) {
    if (hist == 0) (void)s(x1);
    if (hist == 1) (void)s.isZero();
  };
  touch(a);
  touch(b);
  Spline<Real, o> c(a);  // copy
  touch(c);
  Spline<Real, std::max<size_t>(o, 1) - 1> low = mkspline<std::max<size_t>(o, 1) - 1>(grid, wb.first, wb.second, "l");
  auto r = a + b;        // earlier result
  Snap<o> sr(r);
  touch(r);
  std::string key = "mut" + std::to_string(mut);
  // mutate the COPY; the original, the other operand and the earlier result must not notice
  switch (mut) {
    case 0: c *= k; break;
    case 1: c += b; break;
    case 2: c -= b; break;
    case 3: if constexpr (o > 0) c = low; break;
    case 4: c = b; break;
    case 5: c = std::move(b); break;  // b becomes a moved-from object (valid, interval-free) - checked in C10
    case 6: { Spline<Real, o> t(std::move(c)); (void)t; c = a; c *= k; } break;
    case 7: c /= (k * k + Real(1)); c = c; break;
  }
  unchanged(key + "/original-after-mutating-copy", a, sa, g);
  if (mut != 5) unchanged(key + "/operand-after-mutating-copy", b, sb, g);
  unchanged(key + "/earlier-result-after-mutating-copy", r, sr, g);
  behaves_like_fresh(key + "/original-after-mutating-copy", a, x2, hist, true);
  behaves_like_fresh(key + "/mutated-copy", c, x2, hist, true);
  behaves_like_fresh(key + "/earlier-result", r, x2, hist);
  if (mut == 5) behaves_like_fresh(key + "/moved-from", b, x2, hist);
  // now mutate the original; the (already mutated) copy must not notice
  Snap<o> sc(c);
  a *= (k + Real(1));
  a += r;
  unchanged(key + "/copy-after-mutating-original", c, sc, g);
  unchanged(key + "/earlier-result-after-mutating-original", r, sr, g);
  behaves_like_fresh(key + "/mutated-original", a, x2, hist);
}

template <size_t o>
void throwing_case(size_t n, std::pair<size_t, size_t> wa, std::pair<size_t, size_t> wb) {
  auto &E = Engine::get();
  auto g = gridpoints(n);
  Grid<Real> grid(g);
  // a logically different grid: same points but the last one moved by a positive amount
  Real delta = Real::var("delta");
  E.assume(sym::gt(delta, Real(0)));
  std::vector<Real> h = g;
  h.back() = h.back() + delta;
  Grid<Real> other(h);
  Real x1 = Real::var("x1"), x2 = Real::var("x2");
  auto t = mkspline<o>(grid, wa.first, wa.second, "a");
  auto b = mkspline<o>(other, wb.first, wb.second, "b");
  Snap<o> st(t), sb(b);
  (void)t(x1);
  int thrown = 0;
  try { t += b; } catch (BSplineException &) { thrown++; }
  unchanged("iadd-throws/target", t, st, g);
  try { t -= b; } catch (BSplineException &) { thrown++; }
  unchanged("isub-throws/target", t, st, g);
  unchanged("isub-throws/operand", b, sb, h);
  // the same with a right-hand side of LOWER order (a different instantiation of the in-place operators)
  if constexpr (o > 0) {
    auto bl = mkspline<o - 1>(other, wb.first, wb.second, "l");
    Snap<o - 1> sl(bl);
    try { t += bl; thrown += 10; } catch (BSplineException &) {}
    unchanged("iadd-lower-order-throws/target", t, st, g);
    try { t -= bl; thrown += 10; } catch (BSplineException &) {}
    unchanged("isub-lower-order-throws/target", t, st, g);
    unchanged("isub-lower-order-throws/operand", bl, sl, h);
  }
  // failed constructions / assignments from invalid data leave an existing object alone
  Spline<Real, o> keep(t);
  try { keep = Spline<Real, o>(Support<Real>(grid, 0, n), {}); } catch (BSplineException &) { thrown++; }
  unchanged("failed-construction/target", keep, st, g);
  stats().obligations++;
  if (thrown == (n >= 2 ? 3 : 2)) stats().discharged++; else E.fail("expected-refusals", "structure", "an operation that must throw did not (" + std::to_string(thrown) + "/3)");
  behaves_like_fresh("after-failed-updates/target", t, x2, 0);
}

template <size_t o>
void add(std::vector<Case> &cases) {
  for (size_t n = 2; n <= MAXN; n++) {
    auto ws = windows(n);
    std::vector<std::pair<size_t, size_t>> partner{{0, n}, {0, 0}};
    if (n >= 3) { partner.push_back({1, n}); partner.push_back({0, 2}); }
    if (n >= 4) partner.push_back({2, 3});
    for (auto wa : ws)
      for (auto wb : partner) {
        std::string base = "/o" + std::to_string(o) + "/n" + std::to_string(n) + "/wa" + W(wa) + "/wb" + W(wb);
        for (int hist = 0; hist < 2; hist++) {
          cases.push_back({"const-ops" + base + "/h" + std::to_string(hist), [=] { const_ops_case<o>(n, wa, wb, hist); }});
          if (n <= 3 || wa.second - wa.first >= 2)
            for (int mut = 0; mut < 8; mut++)
              cases.push_back({"mutation" + base + "/m" + std::to_string(mut) + "/h" + std::to_string(hist), [=] { mutation_case<o>(n, wa, wb, mut, hist); }});
        }
        cases.push_back({"throwing" + base, [=] { throwing_case<o>(n, wa, wb); }});
      }
  }
}
#ifdef LARGE
// long supports on the fixed rational grid (coefficients, scalars, x1, x2 symbolic): sampled windows of a LARGE-point grid.
// NOT registered: at 10 points the predicate/evaluation histories fork beyond the case budget (measured: 600+ paths in 240 s per case);
// long supports with a history are covered by the C02 large variant instead.
template <size_t o>
void add_large(std::vector<Case> &cases) {
  size_t n = LARGE;
  for (auto wa : windows_sample(n, 5, 61 + o))
    for (auto wb : std::vector<std::pair<size_t, size_t>>{{0, n}, {n / 2, n}}) {
      std::string base = "/o" + std::to_string(o) + "/n" + std::to_string(n) + "/wa" + W(wa) + "/wb" + W(wb);
      for (int hist = 0; hist < 2; hist++) {
        cases.push_back({"const-ops-large" + base + "/h" + std::to_string(hist), [=] { const_ops_case<o>(n, wa, wb, hist); }});
        if (wb.first == 0)
          for (int mut = 0; mut < 8; mut++) cases.push_back({"mutation-large" + base + "/m" + std::to_string(mut) + "/h" + std::to_string(hist), [=] { mutation_case<o>(n, wa, wb, mut, hist); }});
      }
      cases.push_back({"throwing-large" + base, [=] { throwing_case<o>(n, wa, wb); }});
    }
}
void hx_cases(std::vector<Case> &cases) { add_large<1>(cases); }
#else
void hx_cases(std::vector<Case> &cases) {
  add<0>(cases);
  add<1>(cases);
#ifdef MORE_ORDERS
  add<2>(cases);
#endif
}
#endif
