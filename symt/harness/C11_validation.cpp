// C11: malformed input is rejected at the boundary with the library's exception.
// Real code executed: Grid constructors + checkValidity/isSteadilyIncreasing, Support constructor/checkValidity,
// Spline constructor/checkValidity, BSplineGenerator constructors/generateGrid/generateBSplines, linearCombination
// argument checks, interpolate argument checks.
// Sequences are symbolic: sym::F64 elements (IEEE comparisons: NaN, +-0, +-inf are solver variables) and sym::Real elements.
#include "../symf64.h"
#include "../harness.h"
#include <bspline/interpolation/interpolation.h>
using namespace hx;
using sym::F64;
using bspline::exceptions::BSplineException;
#ifndef MAXK
#define MAXK 5
#endif
#ifndef MAXN
#define MAXN 4
#endif

// outcome of a validating call: 0 accepted, 1 refused with BSplineException, 2 other exception
template <class F>
int outcome(F f) {
  try {
    f();
    return 0;
  } catch (BSplineException &) {
    return 1;
  } catch (...) {
    return 2;
  }
}
static void expect(const std::string &key, int got, const Bool &valid) {
  auto &E = Engine::get();
  if (got == 2) {
    E.fail(key + "/refusal-is-library-exception", "structure", "refused with a foreign exception type");
    return;
  }
  if (got == 0)
    E.prove(key + "/accepted-only-if-valid", valid);
  else
    E.prove(key + "/refused-only-if-invalid", !valid);
}
static void expect_concrete(const std::string &key, int got, bool valid) {
  auto &E = Engine::get();
  stats().obligations++;
  if (got == 2)
    E.fail(key + "/refusal-is-library-exception", "structure", "refused with a foreign exception type");
  else if ((got == 0) == valid)
    stats().discharged++;
  else
    E.fail(key + (valid ? "/valid-input-refused" : "/invalid-input-accepted"), "structure", valid ? "valid input was refused" : "invalid input was accepted");
}

// ---- Grid from k symbolic IEEE doubles, every constructor
static void grid_f64(size_t k, int ctor) {
  auto &E = Engine::get();
  E.logic = nullptr;
  std::vector<F64> v;
  for (size_t i = 0; i < k; i++) v.push_back(F64::var("v" + std::to_string(i)));
  Bool valid = Bool::of(k >= 2);
  for (size_t i = 0; i + 1 < k; i++) valid = valid && sym::flt(v[i], v[i + 1]);
  if (stats().paths == 0 && k >= 2) {
    E.witness("nan-is-a-possible-element", sym::fisnan(v[k - 1]));
    E.witness("valid-sequences-exist", valid);
    E.control("validity-not-constant", valid);
  }
  int got = outcome([&] {
    if (ctor == 0) Grid<F64> g(v);
    if (ctor == 1) Grid<F64> g(v.begin(), v.end());
    if (ctor == 2) Grid<F64> g(std::make_shared<const std::vector<F64>>(v));
  });
  expect("grid-f64", got, valid);
}
// Grid<F32> from a sequence of IEEE doubles (iterator constructor): the STORED, i.e. rounded, values must be strictly increasing
static void grid_f32_from_f64(size_t k) {
  auto &E = Engine::get();
  E.logic = nullptr;
  std::vector<F64> v;
  for (size_t i = 0; i < k; i++) v.push_back(F64::var("v" + std::to_string(i)));
  Bool valid = Bool::of(k >= 2), src_increasing = Bool::T();
  for (size_t i = 0; i + 1 < k; i++) {
    valid = valid && sym::flt32(v[i], v[i + 1]);
    src_increasing = src_increasing && sym::flt(v[i], v[i + 1]);
  }
  if (stats().paths == 0 && k >= 2) E.witness("distinct-doubles-can-round-to-equal-floats", src_increasing && !valid);
  int got = outcome([&] { Grid<sym::F32> g(v.begin(), v.end()); });
  expect("grid-f32-from-f64", got, valid);
}
static void grid_real(size_t k) {
  std::vector<Real> v;
  for (size_t i = 0; i < k; i++) v.push_back(Real::var("v" + std::to_string(i)));
  Bool valid = Bool::of(k >= 2);
  for (size_t i = 0; i + 1 < k; i++) valid = valid && sym::lt(v[i], v[i + 1]);
  int got = outcome([&] { Grid<Real> g(v); });
  expect("grid-real", got, valid);
}
// the SAME vector object is offered twice through the shared_ptr constructor: first with valid content, then - after the first grid
// is gone - with symbolic content at the same address. Validation must look at the content every time.
static void grid_same_storage(size_t k) {
  auto p = std::make_shared<std::vector<Real>>();
  for (size_t i = 0; i < k; i++) p->push_back(Real((long long)(3 * i)));
  int first = outcome([&] { std::shared_ptr<const std::vector<Real>> cp = p; Grid<Real> g1{cp}; (void)g1.size(); });
  expect_concrete("grid-same-storage/first-valid", first, k >= 2);
  Bool valid = Bool::of(k >= 2);
  for (size_t i = 0; i < k; i++) (*p)[i] = Real::var("v" + std::to_string(i));
  for (size_t i = 0; i + 1 < k; i++) valid = valid && sym::lt((*p)[i], (*p)[i + 1]);
  int got = outcome([&] { std::shared_ptr<const std::vector<Real>> cp = p; Grid<Real> g2{cp}; (void)g2.size(); });
  expect("grid-same-storage/second", got, valid);
}
static void grid_null() {
  int got = outcome([&] { Grid<Real> g(std::shared_ptr<const std::vector<Real>>{}); });
  expect_concrete("grid-null-pointer", got, false);
  int got2 = outcome([&] { Grid<Real> g(std::initializer_list<Real>{Real(1), Real(2)}); });
  expect_concrete("grid-initializer-list", got2, true);
  int got3 = outcome([&] { Grid<Real> g(std::initializer_list<Real>{Real(2), Real(2)}); });
  expect_concrete("grid-initializer-list-duplicate", got3, false);
}
// ---- Support / Spline: index pairs and coefficient counts (small values and the extremes of size_t; the full 64-bit
// space is covered symbolically by Engine B)
static void support_spline(size_t n) {
  auto g = gridvars(n);
  Grid<Real> grid(g);
  std::vector<size_t> vals;
  for (size_t i = 0; i <= n + 2; i++) vals.push_back(i);
  for (size_t d = 0; d < 3; d++) {
    vals.push_back(SIZE_MAX - d);
    vals.push_back((SIZE_MAX >> 1) + d);
  }
  for (size_t s : vals)
    for (size_t e : vals) {
      bool valid = (s == 0 && e == 0) || (s < e && e <= n);
      expect_concrete("support/" + std::to_string(s) + "," + std::to_string(e), outcome([&] { Support<Real> sup(grid, s, e); }), valid);
    }
  for (auto w : windows(n)) {
    Support<Real> sup(grid, w.first, w.second);
    size_t ni = w.second > w.first + 1 ? w.second - w.first - 1 : 0;
    for (size_t cnt = 0; cnt <= n + 1; cnt++) {
      std::vector<std::array<Real, 3>> c(cnt);
      expect_concrete("spline-coefficient-count/w" + W(w) + "/" + std::to_string(cnt), outcome([&] { Spline<Real, 2> s(sup, c); }), cnt == ni);
      std::vector<std::array<Real, 1>> c0(cnt);
      expect_concrete("spline0-coefficient-count/w" + W(w) + "/" + std::to_string(cnt), outcome([&] { Spline<Real, 0> s(sup, c0); }), cnt == ni);
    }
  }
}
// ---- generator: knots as symbolic IEEE doubles / reals
static void generator_f64(size_t m) {
  auto &E = Engine::get();
  E.logic = nullptr;
  std::vector<F64> t;
  for (size_t i = 0; i < m; i++) t.push_back(F64::var("t" + std::to_string(i)));
  Bool nondecr = Bool::T(), distinct = Bool::F();
  for (size_t i = 0; i + 1 < m; i++) {
    nondecr = nondecr && sym::fle(t[i], t[i + 1]);
    distinct = distinct || sym::flt(t[i], t[i + 1]);
  }
  int got = outcome([&] { bspline::BSplineGenerator<F64> gen(t); });
  expect("generator-f64", got, nondecr && distinct);
}
template <size_t p>
static void generator_real(size_t m) {
  std::vector<Real> t;
  for (size_t i = 0; i < m; i++) t.push_back(Real::var("t" + std::to_string(i)));
  Bool nondecr = Bool::T(), distinct = Bool::F();
  for (size_t i = 0; i + 1 < m; i++) {
    nondecr = nondecr && sym::le(t[i], t[i + 1]);
    distinct = distinct || sym::lt(t[i], t[i + 1]);
  }
  bool built = false;
  int got = outcome([&] {
    bspline::BSplineGenerator<Real> gen(t);
    built = true;
  });
  expect("generator-real", got, nondecr && distinct);
  if (built) {
    bspline::BSplineGenerator<Real> gen(t);
    expect_concrete("generate-needs-order-plus-one-knots/p" + std::to_string(p), outcome([&] { (void)gen.template generateBSplines<p>(); }), m >= p + 1);
    // supplied grid: accepted iff logically equal to the distinct knot values
    auto own = gen.getGrid();
    size_t c = own.size();
    std::vector<Real> h = gridvars(c, "h");
    Grid<Real> H(h);
    Bool same = Bool::T();
    for (size_t k = 0; k < c; k++) same = same && sym::eq(h[k], own[k]);
    expect("generator-supplied-grid", outcome([&] { bspline::BSplineGenerator<Real> g2(t, H); }), same);
    {
      // a supplied grid that continues beyond the knots at either end (one more point) never matches
      Real extra = Real::var("extra");
      Engine::get().assume(sym::gt(extra, h.back()));
      std::vector<Real> longer_back = h;
      longer_back.push_back(extra);
      Grid<Real> HB(longer_back);
      expect("generator-supplied-grid-longer-at-the-end", outcome([&] { bspline::BSplineGenerator<Real> g2(t, HB); }), Bool::F());
    }
    if (c >= 3) {
      std::vector<Real> shorter(h.begin(), h.end() - 1);
      Grid<Real> H2(shorter);
      expect("generator-supplied-grid-shorter", outcome([&] { bspline::BSplineGenerator<Real> g2(t, H2); }), Bool::F());
    }
  }
}
// long knot vectors: all knots fixed (integers, every third one doubled) except a sliding run of three symbolic IEEE
// doubles at positions pos..pos+2 - the relation of the run to its fixed neighbours is what the solver explores
static void generator_f64_window(size_t m, size_t pos) {
  auto &E = Engine::get();
  E.logic = nullptr;
  std::vector<F64> t;
  for (size_t i = 0; i < m; i++) t.push_back(i >= pos && i < pos + 3 ? F64::var("t" + std::to_string(i)) : F64((long)(2 * i - (i % 3 == 2 ? 2 : 0))));
  Bool nondecr = Bool::T(), distinct = Bool::F();
  for (size_t i = 0; i + 1 < m; i++) {
    nondecr = nondecr && sym::fle(t[i], t[i + 1]);
    distinct = distinct || sym::flt(t[i], t[i + 1]);
  }
  expect("generator-f64-window", outcome([&] { bspline::BSplineGenerator<F64> gen(t); }), nondecr && distinct);
}
// long grids: every point fixed except a sliding run of two symbolic IEEE doubles (complements the fully symbolic sequences)
static void grid_f64_window(size_t k, size_t pos, int ctor) {
  auto &E = Engine::get();
  E.logic = nullptr;
  std::vector<F64> v;
  for (size_t i = 0; i < k; i++) v.push_back(i >= pos && i < pos + 2 ? F64::var("v" + std::to_string(i)) : F64((long)(3 * i)));
  Bool valid = Bool::T();
  for (size_t i = 0; i + 1 < k; i++) valid = valid && sym::flt(v[i], v[i + 1]);
  int got = outcome([&] {
    if (ctor == 0) Grid<F64> g(v);
    if (ctor == 1) Grid<F64> g(v.begin(), v.end());
    if (ctor == 2) Grid<F64> g(std::make_shared<const std::vector<F64>>(v));
  });
  expect("grid-f64-window", got, valid);
}
// ---- linearCombination and interpolate argument checks
#ifndef LCCOUNT
#define LCCOUNT 3
#endif
static void lincomb_counts(size_t n) {
  auto g = gridvars(n);
  Grid<Real> grid(g);
  for (size_t nc = 0; nc <= LCCOUNT; nc++)
    for (size_t ns = 0; ns <= LCCOUNT; ns++) {
      std::vector<Real> C;
      std::vector<Spline<Real, 1>> S;
      for (size_t i = 0; i < nc; i++) C.push_back(Real::var("k" + std::to_string(i)));
      for (size_t i = 0; i < ns; i++) S.push_back(mkspline<1>(grid, i % 2, n, "s" + std::to_string(i) + "_"));
      expect_concrete("lincomb/" + std::to_string(nc) + "coeffs," + std::to_string(ns) + "splines", outcome([&] { (void)bspline::linearCombination(C, S); }), nc == ns && nc >= 1);
      expect_concrete("lincomb-iter/" + std::to_string(nc) + "coeffs," + std::to_string(ns) + "splines",
                      outcome([&] { (void)bspline::linearCombination(C.begin(), C.end(), S.begin(), S.end()); }), nc == ns && nc >= 1);
    }
}
struct NullSolver final : bspline::interpolation::internal::ISolver<Real> {
  size_t n;
  std::vector<Real> m, bb, xx;
  explicit NullSolver(size_t p) : n(p), m(p * p, Real(0)), bb(p, Real(0)), xx(p, Real(0)) {}
  Real &M(size_t i, size_t j) override { return m.at(i * n + j); }
  Real &b(size_t i) override { return bb.at(i); }
  Real &x(size_t i) override { return xx.at(i); }
  void solve() override {
    for (size_t i = 0; i < n; i++) xx[i] = Real::var("sol" + std::to_string(i));
  }
};
template <size_t order>
static void interp_args(size_t n) {
  using namespace bspline::interpolation;
  auto g = gridvars(n);
  Grid<Real> grid(g);
  for (auto w : windows(n))
    for (size_t ny = 0; ny <= n + 1; ny++) {
      Support<Real> sup(grid, w.first, w.second);
      std::vector<Real> y;
      for (size_t i = 0; i < ny; i++) y.push_back(Real::var("y" + std::to_string(i)));
      size_t nx = w.second - w.first;
      expect_concrete("interpolate-sizes/o" + std::to_string(order) + "/w" + W(w) + "/ny" + std::to_string(ny),
                      outcome([&] { (void)interpolate<Real, order, NullSolver>(sup, y); }), nx == ny && nx >= 2);
    }
  if constexpr (order >= 2) {
    Support<Real> sup = Support<Real>::createWholeGrid(grid);
    std::vector<Real> y;
    for (size_t i = 0; i < n; i++) y.push_back(Real::var("y" + std::to_string(i)));
    std::vector<size_t> ders;
    for (size_t d = 0; d <= order + 2; d++) ders.push_back(d);
    ders.push_back(SIZE_MAX);
    for (size_t slot = 0; slot + 1 < order; slot++)
      for (int node = 0; node < 2; node++)
        for (size_t d : ders) {
          // all other slots hold valid, mutually compatible conditions (distinct derivatives on the other node)
          std::array<Boundary<Real>, order - 1> bo;
          size_t nextd = 1;
          for (size_t i = 0; i + 1 < order; i++) {
            if (i == slot)
              bo[i] = Boundary<Real>{node == 0 ? Node::FIRST : Node::LAST, d, Real::var("bv")};
            else
              bo[i] = Boundary<Real>{node == 0 ? Node::LAST : Node::FIRST, nextd++, Real(0)};
          }
          expect_concrete("interpolate-boundary-derivative/o" + std::to_string(order) + "/slot" + std::to_string(slot) + (node ? "/LAST/d" : "/FIRST/d") + std::to_string(d),
                          outcome([&] { (void)interpolate<Real, order, NullSolver>(sup, y, bo); }), d >= 1 && d <= order);
        }
  }
}

void hx_cases(std::vector<Case> &cases) {
  for (size_t k = 0; k <= MAXK; k++)
    for (int ctor = 0; ctor < 3; ctor++) cases.push_back({"grid-f64/k" + std::to_string(k) + "/ctor" + std::to_string(ctor), [=] { grid_f64(k, ctor); }});
  for (size_t k = 0; k <= MAXK; k++) cases.push_back({"grid-real/k" + std::to_string(k), [=] { grid_real(k); }});
  for (size_t k = 0; k + 1 <= MAXK; k++) cases.push_back({"grid-f32-from-f64/k" + std::to_string(k), [=] { grid_f32_from_f64(k); }});
  cases.push_back({"grid-null", [] { grid_null(); }});
  for (size_t k = 2; k <= 4; k++) cases.push_back({"grid-same-storage/k" + std::to_string(k), [=] { grid_same_storage(k); }});
  for (size_t n = 2; n <= MAXN; n++) cases.push_back({"support-spline/n" + std::to_string(n), [=] { support_spline(n); }});
  for (size_t m = 0; m <= MAXK; m++) cases.push_back({"generator-f64/m" + std::to_string(m), [=] { generator_f64(m); }});
  for (size_t m = 0; m <= MAXK; m++) {
    cases.push_back({"generator-real/p0/m" + std::to_string(m), [=] { generator_real<0>(m); }});
    cases.push_back({"generator-real/p2/m" + std::to_string(m), [=] { generator_real<2>(m); }});
    cases.push_back({"generator-real/p3/m" + std::to_string(m), [=] { generator_real<3>(m); }});
  }
#ifdef LARGEK
  // long sequences: fully symbolic grids of 6..LARGEK elements (one path per position of the first violation), sliding symbolic
  // runs in long fixed grids / knot vectors, large grids for the index-window, coefficient-count and interpolation-size checks
  for (size_t k = MAXK + 1; k <= LARGEK; k++) {
    for (int ctor = 0; ctor < 3; ctor++) cases.push_back({"grid-f64/k" + std::to_string(k) + "/ctor" + std::to_string(ctor), [=] { grid_f64(k, ctor); }});
    cases.push_back({"grid-real/k" + std::to_string(k), [=] { grid_real(k); }});
  }
  for (size_t k = MAXK; k <= 9; k++) cases.push_back({"grid-f32-from-f64/k" + std::to_string(k), [=] { grid_f32_from_f64(k); }});
  for (size_t k : {(size_t)LARGEK, (size_t)LARGEK + 8})
    for (size_t pos = 0; pos + 2 <= k; pos++) cases.push_back({"grid-f64-window/k" + std::to_string(k) + "/pos" + std::to_string(pos), [=] { grid_f64_window(k, pos, (int)(pos % 3)); }});
  for (size_t m : {(size_t)LARGEK - 4, (size_t)LARGEK})
    for (size_t pos = 0; pos + 3 <= m; pos++) cases.push_back({"generator-f64-window/m" + std::to_string(m) + "/pos" + std::to_string(pos), [=] { generator_f64_window(m, pos); }});
  cases.push_back({"support-spline/n" + std::to_string(LARGEK), [=] { support_spline(LARGEK); }});
  cases.push_back({"interpolate-args/o2/n" + std::to_string(LARGEK - 4), [=] { interp_args<2>(LARGEK - 4); }});
#endif
  for (size_t n = 2; n <= 3; n++) cases.push_back({"lincomb-counts/n" + std::to_string(n), [=] { lincomb_counts(n); }});
  for (size_t n = 2; n <= MAXN; n++) {
    cases.push_back({"interpolate-args/o1/n" + std::to_string(n), [=] { interp_args<1>(n); }});
    cases.push_back({"interpolate-args/o2/n" + std::to_string(n), [=] { interp_args<2>(n); }});
    cases.push_back({"interpolate-args/o3/n" + std::to_string(n), [=] { interp_args<3>(n); }});
    cases.push_back({"interpolate-args/o4/n" + std::to_string(n), [=] { interp_args<4>(n); }});
  }
}
