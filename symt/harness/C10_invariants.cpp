// C10: objects are always valid - class invariants survive every history.
// Real code executed: all constructors, copy/move construction and assignment (incl. self-assignment and self-move) of
// Spline/Support/Grid, cross-order assignment, arithmetic and in-place operators (with symbolic scalars that may be zero),
// operator application, linearCombination, failing calls (bad coefficient count, different grids), std::swap.
// Built with BSPLINE_ADD_TEST_CHECKS, so the library's own self-checks run on every call as well.
#include "../harness.h"
#include <bspline/interpolation/interpolation.h>
#include <bspline/operators/SplineOperator.h>
using namespace hx;
using namespace bspline::operators;
using bspline::exceptions::BSplineException;
#ifndef MAXN
#define MAXN 3
#endif
#ifndef SEQLEN
#define SEQLEN 2
#endif
static const int NOPS = 22;

template <size_t o>
void valid(const std::string &key, const Spline<Real, o> &s, const std::vector<Real> &pts, bool must_be_interval_free = false) {
  auto &E = Engine::get();
  stats().obligations++;
  const auto &sup = s.getSupport();
  size_t st = sup.getStartIndex(), en = sup.getEndIndex(), n = sup.getGrid().size();
  bool win = (st == 0 && en == 0) || (st < en && en <= n);
  size_t ni = en > st + 1 ? en - st - 1 : 0;
  bool ok = win && n >= 2 && s.getCoefficients().size() == ni && n == pts.size() && sup.size() == en - st && sup.numberOfIntervals() == ni &&
            sup.empty() == (st == en) && sup.containsIntervals() == (ni > 0);
  if (must_be_interval_free) ok = ok && ni == 0;  // any valid window without an interval (the code makes it (0,0))
  if (!ok) {
    E.fail(key, "structure", "invariant broken: window [" + std::to_string(st) + "," + std::to_string(en) + ") on a grid of " + std::to_string(n) + " points with " +
                                 std::to_string(s.getCoefficients().size()) + " coefficient arrays" + (must_be_interval_free ? " (moved-from object must be interval-free)" : ""));
    return;
  }
  stats().discharged++;
  // the grid the object lives on still has the original strictly increasing points
  for (size_t k = 0; k < n; k++) E.prove(key + "/grid-point", sym::eq(sup.getGrid()[k], pts[k]));
  for (size_t k = 0; k + 1 < n; k++) E.prove(key + "/grid-strictly-increasing", sym::lt(sup.getGrid()[k], sup.getGrid()[k + 1]));
}

struct Pool {
  Spline<Real, 1> a, b, m;
  Spline<Real, 0> low;
  Spline<Real, 1> foreign;
};

// applies operation `op` to the pool; returns which objects must be interval-free afterwards (bit 0: a, bit 1: b)
static int apply(Pool &P, int op, const Real &k, const Real &k2, const Grid<Real> &grid, size_t n) {
  auto &a = P.a;
  auto &b = P.b;
  auto &m = P.m;
  switch (op) {
    case 0: a = b; return 0;
    case 1: a = std::move(b); return 2;
    case 2: { auto *p = &a; a = std::move(*p); return 0; }  // self-move: any valid state is acceptable
    case 3: { auto *p = &a; a = *p; return 0; }
    case 4: a += b; return 0;
    case 5: a -= b; return 0;
    case 6: a *= k; return 0;
    case 7: a /= k2; return 0;
    case 8: a = P.low; return 0;
    case 9: m = a + b; return 0;
    case 10: m = Dx<1>{} * (a * b); return 0;
    case 11: { Spline<Real, 1> t(std::move(a)); (void)t; return 1; }
    case 12: try { a += P.foreign; } catch (BSplineException &) {} return 0;
    case 13: try { a = Spline<Real, 1>(Support<Real>(grid, 0, n), {}); } catch (BSplineException &) {} return 0;
    case 14: b = std::move(a); a = m; return 0;
    case 15: a = bspline::linearCombination(std::vector<Real>{k, k2}, std::vector<Spline<Real, 1>>{a, b}); return 0;
    case 16: std::swap(a, b); return 0;
    case 17: m = (X<1>{} * Dx<1>{} - k) * b; return 0;
    // expiring operands (xvalues): whatever overload is chosen, the source stays a valid object
    case 18: m = std::move(a) * k; return 0;
    case 19: m = std::move(a) + b; return 0;
    case 20: m = -std::move(b); return 0;
    case 21: m = Dx<1>{} * (std::move(a) * std::move(b)); { auto sup = std::move(a).getSupport(); (void)sup; } return 0;
  }
  return 0;
}

void sequence_case(size_t n, std::pair<size_t, size_t> wa, std::pair<size_t, size_t> wb, std::vector<int> ops) {
  auto &E = Engine::get();
  auto g = gridpoints(n);
  Grid<Real> grid(g);
  std::vector<Real> h = g;
  Real delta = Real::var("delta");
  E.assume(sym::gt(delta, Real(0)));
  h[0] = h[0] - delta;
  Grid<Real> other(h);
  Real k = Real::var("k"), k2 = Real::var("k2");
  E.assume(sym::ne(k2, Real(0)));
  Pool P{mkspline<1>(grid, wa.first, wa.second, "a"), mkspline<1>(grid, wb.first, wb.second, "b"), Spline<Real, 1>(grid), mkspline<0>(grid, wb.first, wb.second, "l"),
         mkspline<1>(other, 0, n, "f")};
  std::string key;
  for (size_t i = 0; i < ops.size(); i++) {
    key += "op" + std::to_string(ops[i]) + "/";
    int free_mask = apply(P, ops[i], k, k2, grid, n);
    valid(key + "a-valid", P.a, g, free_mask & 1);
    valid(key + "b-valid", P.b, g, free_mask & 2);
    valid(key + "m-valid", P.m, g);
    valid(key + "foreign-valid", P.foreign, h);
  }
  if (ops.size() == 1 && ops[0] == 0) E.control("grid-order-not-vacuous", sym::gt(P.a.getSupport().getGrid()[0], P.a.getSupport().getGrid()[1]));
  // every object can still be combined and assigned to
  try {
    auto r = P.a + P.b;
    valid(key + "sum-after-history-valid", r, g);
    P.b = r;
    P.a = P.b * k;
    P.a += P.m;
    valid(key + "reassigned-valid", P.a, g);
    (void)P.a(g[0]);
    (void)P.b(g[n - 1]);
  } catch (BSplineException &e) {
    E.fail(key + "usable-after-history", "structure", std::string("object unusable after the history: ") + e.what());
  }
}

// Support / Grid level: copies, moves, self-moves, algebra results
void support_case(size_t n) {
  auto &E = Engine::get();
  auto g = gridpoints(n);
  Grid<Real> grid(g);
  auto okwin = [&](const std::string &key, const Support<Real> &s, bool must_be_empty = false) {
    stats().obligations++;
    size_t st = s.getStartIndex(), en = s.getEndIndex();
    bool ok = ((st == 0 && en == 0) || (st < en && en <= n)) && s.getGrid().size() == n && s.getGrid() == grid && (!must_be_empty || en - st <= 1);
    if (ok) stats().discharged++; else E.fail(key, "structure", "support invariant broken: [" + std::to_string(st) + "," + std::to_string(en) + ")");
  };
  for (auto w : windows(n))
    for (auto w2 : windows(n)) {
      std::string k = "w" + W(w) + "/w2" + W(w2) + "/";
      Support<Real> s(grid, w.first, w.second), t(grid, w2.first, w2.second);
      { Support<Real> c(s); okwin(k + "copy", c); okwin(k + "copy-source", s); }
      { Support<Real> c(s); Support<Real> mv(std::move(c)); okwin(k + "move-ctor-target", mv); okwin(k + "move-ctor-source-empty", c, true);
        c = t; okwin(k + "moved-from-reassigned", c); auto u = c.calcUnion(s); okwin(k + "moved-from-combined", u); }
      { Support<Real> c(s), d(t); d = std::move(c); okwin(k + "move-assign-target", d); okwin(k + "move-assign-source-empty", c, true);
        stats().obligations++; if (d == s) stats().discharged++; else E.fail(k + "move-assign-value", "structure", "move assignment did not transfer the window"); }
      { Support<Real> c(s); auto *p = &c; c = std::move(*p); okwin(k + "self-move", c); }
      { Support<Real> c(s); auto *p = &c; c = *p; okwin(k + "self-copy", c); stats().obligations++; if (c == s) stats().discharged++; else E.fail(k + "self-copy-value", "structure", "self copy changed the window"); }
      okwin(k + "union", s.calcUnion(t));
      okwin(k + "intersection", s.calcIntersection(t));
    }
  { auto e = Support<Real>::createEmpty(grid); okwin("createEmpty", e, true); stats().obligations++; if (e.empty()) stats().discharged++; else E.fail("createEmpty-is-empty", "structure", "createEmpty() is not empty"); }
  okwin("createWholeGrid", Support<Real>::createWholeGrid(grid));
  { Grid<Real> c(grid); Grid<Real> d(g); d = c; stats().obligations++; if (d == grid && d.size() == n && c.size() == n) stats().discharged++; else E.fail("grid-copy", "structure", "grid copy invalid"); }
}

static void seqs(size_t len, std::vector<int> &cur, std::vector<std::vector<int>> &out) {
  if (cur.size() == len) {
    out.push_back(cur);
    return;
  }
  for (int op = 0; op < NOPS; op++) {
    cur.push_back(op);
    seqs(len, cur, out);
    cur.pop_back();
  }
}
#ifdef LARGE
// large grids (fixed rational points, coefficients and scalars symbolic): the Support life cycle on every window pair of a 12-point
// grid, every single operation and a sample of two-step sequences from sampled window pairs of a LARGE-point grid
#ifndef NSAMPLE
#define NSAMPLE 6
#endif
void hx_cases(std::vector<Case> &cases) {
  cases.push_back({"support-large/n12", [=] { support_case(12); }});
  std::vector<std::vector<int>> one, two;
  { std::vector<int> cur; seqs(1, cur, one); seqs(2, cur, two); }
  auto was = windows_sample(LARGE, NSAMPLE, 51), wbs = windows_sample(LARGE, NSAMPLE, 52);
  size_t k = 0;
  for (auto wa : was)
    for (auto wb : wbs) {
      for (auto &sq : one) cases.push_back({"seq-large/n" + std::to_string(LARGE) + "/wa" + W(wa) + "/wb" + W(wb) + "/ops-" + std::to_string(sq[0]), [=] { sequence_case(LARGE, wa, wb, sq); }});
      for (size_t j = 0; j < 6; j++) {
        auto sq = two[(k * 37 + j * 101) % two.size()];
        cases.push_back({"seq-large/n" + std::to_string(LARGE) + "/wa" + W(wa) + "/wb" + W(wb) + "/ops-" + std::to_string(sq[0]) + "-" + std::to_string(sq[1]), [=] { sequence_case(LARGE, wa, wb, sq); }});
      }
      k++;
    }
}
#else
void hx_cases(std::vector<Case> &cases) {
  for (size_t n = 2; n <= MAXN + 1; n++) cases.push_back({"support/n" + std::to_string(n), [=] { support_case(n); }});
  std::vector<std::vector<int>> all;
  for (size_t len = 1; len <= SEQLEN; len++) {
    std::vector<int> cur;
    seqs(len, cur, all);
  }
  for (size_t n = 2; n <= MAXN; n++)
    for (auto wa : windows(n))
      for (auto wb : windows(n)) {
        if (n == MAXN && n > 2 && wb.second - wb.first == 1) continue;  // point-like partner only on the smaller grid
        // one case per (shape, first operation); the second operation is looped inside to keep the case count moderate
        for (auto &sq : all) {
          std::string id = "seq/n" + std::to_string(n) + "/wa" + W(wa) + "/wb" + W(wb) + "/ops";
          for (int op : sq) id += "-" + std::to_string(op);
          cases.push_back({id, [=] { sequence_case(n, wa, wb, sq); }});
        }
      }
}
#endif
