// C03, integer-typed scalars at the call site: with a scalar type that converts implicitly from int (as double does),
// `a / 2`, `a * 3`, `a *= 2`, `a /= 4`, `s(1)` are well-formed and must mean the operation with T(2), T(3), ...
// Built with -DSYMT_IMPLICIT_INT (sym::Real's constructor from integral types is then implicit).
#include "../harness.h"
using namespace hx;
#ifndef MAXN
#define MAXN 3
#endif
template <class R, class FA>
void same_function(const std::string &key, const R &r, const std::vector<Real> &g, size_t n, const Real &x, FA expected_at) {
  auto &E = Engine::get();
  if (!shape_ok(r, n)) E.fail(key + "/shape", "structure", "result window/coefficient count inconsistent");
  for (size_t gi = 0; gi + 1 < n; gi++) E.prove(key + "/iv" + std::to_string(gi), sym::eq(piece_at(r, g, gi, x), expected_at(gi)));
}
template <size_t o>
void int_case(size_t n) {
  auto &E = Engine::get();
  auto g = gridvars(n);
  Grid<Real> grid(g);
  Real x = Real::var("x");
  for (auto w : windows(n)) {
    auto a = mkspline<o>(grid, w.first, w.second, "a");
    auto A = [&](size_t gi) { return piece_at(a, g, gi, x); };
    std::string k = "w" + W(w) + "/";
    same_function(k + "a/2", a / 2, g, n, x, [&](size_t gi) { return A(gi) / Real(2); });
    same_function(k + "a/-4", a / -4, g, n, x, [&](size_t gi) { return A(gi) / Real(-4); });
    same_function(k + "a/8L", a / 8L, g, n, x, [&](size_t gi) { return A(gi) / Real(8); });
    same_function(k + "a*3", a * 3, g, n, x, [&](size_t gi) { return A(gi) * Real(3); });
    same_function(k + "a*2u", a * 2u, g, n, x, [&](size_t gi) { return A(gi) * Real(2); });
    { auto t = a; t /= 4; same_function(k + "a/=4", t, g, n, x, [&](size_t gi) { return A(gi) / Real(4); }); }
    { auto t = a; t *= 5; t /= 2; same_function(k + "a*=5;a/=2", t, g, n, x, [&](size_t gi) { return A(gi) * Real(5) / Real(2); }); }
    { unsigned short us = 3; size_t sz = 7; int neg = -2; auto t = a * us; t /= sz; t *= neg;
      same_function(k + "mixed-integer-types", t, g, n, x, [&](size_t gi) { return A(gi) * Real(3) / Real(7) * Real(-2); }); }
  }
  auto a = mkspline<o>(grid, 0, n, "a");
  E.control("perturbed-int-division", sym::eq(piece_at(a / 2, g, 0, x), piece_at(a, g, 0, x)));
}
void hx_cases(std::vector<Case> &cases) {
  for (size_t n = 2; n <= MAXN; n++) {
    cases.push_back({"int-scalar/o0/n" + std::to_string(n), [=] { int_case<0>(n); }});
    cases.push_back({"int-scalar/o1/n" + std::to_string(n), [=] { int_case<1>(n); }});
    cases.push_back({"int-scalar/o2/n" + std::to_string(n), [=] { int_case<2>(n); }});
  }
}
