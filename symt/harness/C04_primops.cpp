// C04: primitive operators are d^n/dx^n and multiplication by x^n on every interval.
// Real code executed: Derivative<n>::transform, Position<n>::transform/expandPower, IdentityOperator::transform,
// transformSpline, operator*(Operator, Spline), internal::faculty/facultyRatio/binomialCoefficient.
#include "../harness.h"
using namespace hx;
using namespace bspline::operators;
#ifndef MAXN
#define MAXN 4
#endif
#ifndef MAXO
#define MAXO 3
#endif
#ifndef MAXD
#define MAXD 4
#endif

template <size_t d, size_t o>
void prim_case(size_t n, bool fixed_grid = false, std::vector<std::pair<size_t, size_t>> ws = {}) {
  auto &E = Engine::get();
  // fixed_grid: rational grid points (the high-order cases, where a symbolic midpoint raised to the 40th power is out of reach)
  std::vector<Real> g = fixed_grid ? std::vector<Real>{Real::frac(-3, 2), Real::frac(5, 7), Real(3)} : gridpoints(n);
  if (fixed_grid) g.resize(n);
  if (ws.empty()) ws = windows(n);
  Grid<Real> grid(g);
  Real x = Real::var("x");
  bool ctl = false;
  for (auto w : ws) {
    auto s = mkspline<o>(grid, w.first, w.second, "c");
    auto ds = Dx<d>{} * s;
    auto xs = X<d>{} * s;
    auto is = IdentityOperator{} * s;
    std::string k = "w" + W(w) + "/";
    if (!shape_ok(ds, n) || !shape_ok(xs, n) || !shape_ok(is, n)) E.fail(k + "shape", "structure", "result shape inconsistent");
    for (size_t gi = 0; gi + 1 < n; gi++) {
      // reference: operand piece in the origin monomial basis, differentiated / multiplied there
      Poly p = piece(s, g, gi), dp = p, xp = p;
      for (size_t i = 0; i < d; i++) {
        dp = pderiv(dp);
        xp = pmulx(xp);
      }
      E.prove(k + "Dx/iv" + std::to_string(gi), sym::eq(piece_at(ds, g, gi, x), peval(dp, x)));
      E.prove(k + "X/iv" + std::to_string(gi), sym::eq(piece_at(xs, g, gi, x), peval(xp, x)));
      E.prove(k + "I/iv" + std::to_string(gi), sym::eq(piece_at(is, g, gi, x), peval(p, x)));
      if (!ctl && !p.empty()) {
        ctl = true;
        E.control("perturbed-derivative", sym::eq(piece_at(ds, g, gi, x), peval(dp, x) + Real(1)));
        E.control("perturbed-position", sym::eq(piece_at(xs, g, gi, x), peval(xp, x) + x));
      }
    }
    // identity returns an equal spline (library operator==; symbolic coefficients compare syntactically equal, no fork expected)
    if (!(is == s)) E.fail(k + "identity-equal", "structure", "IdentityOperator result != operand");
  }
}
// the same operator objects applied alternately on two grids with independent symbolic points (same interval indices,
// different midpoints): results must not depend on what was transformed before
template <size_t d, size_t o>
void two_grids_case(size_t n) {
  auto &E = Engine::get();
  auto g = gridvars(n, "g"), h = gridvars(n, "h");
  Grid<Real> G(g), H(h);
  Real x = Real::var("x");
  auto s1 = mkspline<o>(G, 0, n, "c"), s2 = mkspline<o>(H, 0, n, "e");
  X<d> xop;
  Dx<d> dop;
  auto check = [&](const std::string &k, const Spline<Real, o> &s, const std::vector<Real> &pts) {
    auto xs = xop * s;
    auto ds = dop * s;
    auto cs = (X<d>{} * Dx<d>{} + IdentityOperator{}) * s;
    for (size_t gi = 0; gi + 1 < n; gi++) {
      Poly p = piece(s, pts, gi), dp = p, xp = p;
      for (size_t i = 0; i < d; i++) dp = pderiv(dp);
      for (size_t i = 0; i < d; i++) xp = pmulx(xp);
      Poly xdp = dp;
      for (size_t i = 0; i < d; i++) xdp = pmulx(xdp);
      E.prove(k + "/X/iv" + std::to_string(gi), sym::eq(piece_at(xs, pts, gi, x), peval(xp, x)));
      E.prove(k + "/Dx/iv" + std::to_string(gi), sym::eq(piece_at(ds, pts, gi, x), peval(dp, x)));
      E.prove(k + "/XDx+I/iv" + std::to_string(gi), sym::eq(piece_at(cs, pts, gi, x), peval(padd(xdp, p), x)));
    }
  };
  check("first-grid", s1, g);
  check("second-grid", s2, h);
  check("first-grid-again", s1, g);
  check("second-grid-again", s2, h);
  // one spline OBJECT that is re-assigned between the grids (its embedded Grid object keeps its address), with the window of the
  // second operand starting at the interval index processed last
  auto s3 = mkspline<o>(H, n - 2, n, "f");
  Spline<Real, o> cur = s1;
  check("object/first-grid", cur, g);
  cur = s3;
  check("object/reassigned-to-second-grid-last-interval", cur, h);
  cur = s1;
  check("object/back-on-first-grid", cur, g);
  cur = s2;
  check("object/reassigned-to-second-grid", cur, h);
}

template <size_t d, size_t o>
void add(std::vector<Case> &cases) {
  for (size_t n = 2; n <= MAXN; n++) cases.push_back({"prim/d" + std::to_string(d) + "/o" + std::to_string(o) + "/n" + std::to_string(n), [=] { prim_case<d, o>(n); }});
  if (d <= 3 && o <= 2)
    for (size_t n = 2; n <= 3; n++) cases.push_back({"prim-two-grids/d" + std::to_string(d) + "/o" + std::to_string(o) + "/n" + std::to_string(n), [=] { two_grids_case<d, o>(n); }});
  if constexpr (o > 0)
    add<d, o - 1>(cases);
  else if constexpr (d > 0)
    add<d - 1, MAXO>(cases);
}
// sparse high (n, order) pairs on a fixed rational 2-point grid [-3/2, 5/7] (coefficients and x symbolic): where factorials and binomials leave the range of 64-bit integers
template <size_t d, size_t o>
void add_high(std::vector<Case> &cases) {
  cases.push_back({"prim-high/d" + std::to_string(d) + "/o" + std::to_string(o) + "/n2", [=] { prim_case<d, o>(2, true); }});
}
static constexpr std::array<size_t, 10> HV{0, 1, 3, 5, 8, 13, 20, 21, 22, 25};
template <size_t... I>
void add_high_all(std::vector<Case> &cases, std::index_sequence<I...>) {
  (add_high<HV[I / HV.size()], HV[I % HV.size()]>(cases), ...);
}
// dense (n, order) pairs for n = 0..4 and orders 4..12 on the same fixed interval
template <size_t d, size_t o>
void add_dense(std::vector<Case> &cases) {
  add_high<d, o>(cases);
  if constexpr (o > 4)
    add_dense<d, o - 1>(cases);
  else if constexpr (d > 0)
    add_dense<d - 1, 12>(cases);
}
#ifdef LARGE
// every window of a LARGE-point fixed rational grid (coefficients and x symbolic)
template <size_t d, size_t o>
void add_large(std::vector<Case> &cases) {
  auto all = windows(LARGE);
  for (size_t lo = 0; lo < all.size(); lo += 8) {
    std::vector<std::pair<size_t, size_t>> part(all.begin() + lo, all.begin() + std::min(all.size(), lo + 8));
    cases.push_back({"prim-large/d" + std::to_string(d) + "/o" + std::to_string(o) + "/n" + std::to_string(LARGE) + "/part" + std::to_string(lo / 8), [=] { prim_case<d, o>(LARGE, false, part); }});
  }
}
void hx_cases(std::vector<Case> &cases) {
  add_large<1, 1>(cases);
  add_large<2, 3>(cases);
  add_large<3, 2>(cases);
  add_large<1, 0>(cases);
#ifdef LARGE_ALL
  add_large<0, 1>(cases);
  add_large<2, 2>(cases);
  add_large<4, 4>(cases);
  add_large<1, 6>(cases);
#endif
}
#else
void hx_cases(std::vector<Case> &cases) {
  add<MAXD, MAXO>(cases);
#ifdef HIGH_ORDERS
  add_high_all(cases, std::make_index_sequence<HV.size() * HV.size()>{});
  add_dense<4, 12>(cases);
#endif
}
#endif
