// C17: numerical quadrature matches the analytic forms where Gauss-Legendre is exact.
// Real code executed: integration::integrate<n> (numerical.h): calcIntersection, interval loop, Support::at, the integrand
// lambda with internal::evaluateInterval; BilinearForm with the weight as an X-polynomial operator.
// boost::math::quadrature::gauss is replaced by a stub implementing the exact n-point Gauss-Legendre rule (nodes as
// algebraic numbers) - the documented contract of the environment; boost's rounded double tables are outside the claim.
#include "../harness.h"
#include <bspline/integration/numerical.h>
#include "../gauss_nodes.h"
using namespace hx;
using namespace bspline::operators;
using namespace bspline::integration;
#ifndef MAXN
#define MAXN 4
#endif
#ifndef MAXO
#define MAXO 2
#endif
#ifndef MAXQ
#define MAXQ 3
#endif

template <size_t nq, size_t o1, size_t o2, size_t d>
void quad_case(size_t n, std::pair<size_t, size_t> wa, std::vector<std::pair<size_t, size_t>> wbs = {}) {
  auto &E = Engine::get();
  auto g = gridpoints(n);
  if (wbs.empty()) wbs = windows(n);
  Grid<Real> grid(g);
  std::vector<Real> w;
  for (size_t k = 0; k <= d; k++) w.push_back(Real::var("w" + std::to_string(k)));
  auto f = [&](const Real &x) {
    Real r(0), p(1);
    for (auto &c : w) {
      r = r + c * p;
      p = p * x;
    }
    return r;
  };
  auto m1 = mkspline<o1>(grid, wa.first, wa.second, "a");
  bool ctl = false;
  for (auto wb : wbs) {
    auto m2 = mkspline<o2>(grid, wb.first, wb.second, "b");
    Real num = integrate<nq>(f, m1, m2);
    // reference: sum over common intervals of the exact integral of f*p1*p2 (origin basis, antiderivative at both ends)
    Real ref(0);
    size_t lo = std::max(wa.first, wb.first), hi = std::min(wa.second, wb.second);
    for (size_t gi = lo; gi + 1 < hi; gi++) ref = ref + pintegral(pmul(Poly(w.begin(), w.end()), pmul(piece(m1, g, gi), piece(m2, g, gi))), g[gi], g[gi + 1]);
    std::string key = "wb" + W(wb) + "/";
    E.prove(key + "equals-exact-integral-over-common-intervals", sym::eq(num, ref));
    Real ana(0);
    if constexpr (d == 0) ana = BilinearForm{w[0] * IdentityOperator{}}(m1, m2);
    if constexpr (d == 1) ana = BilinearForm{w[1] * X<1>{} + w[0]}(m1, m2);
    if constexpr (d == 2) ana = BilinearForm{w[2] * X<2>{} + w[1] * X<1>{} + w[0]}(m1, m2);
    E.prove(key + "equals-analytic-bilinear-form", sym::eq(num, ana));
    // the weight as the FIRST operator of the form (m1 f | m2) is the same integral
    Real ana1(0);
    if constexpr (d == 0) ana1 = BilinearForm{w[0] * IdentityOperator{}, IdentityOperator{}}(m1, m2);
    if constexpr (d == 1) ana1 = BilinearForm{w[1] * X<1>{} + w[0], IdentityOperator{}}(m1, m2);
    if constexpr (d == 2) ana1 = BilinearForm{w[2] * X<2>{} + w[1] * X<1>{} + w[0], IdentityOperator{}}(m1, m2);
    E.prove(key + "equals-analytic-bilinear-form-weight-first", sym::eq(num, ana1));
    if (!ctl && lo + 1 < hi) {
      ctl = true;
      E.control("perturbed-integral", sym::eq(num, ref + Real(1)));
    }
  }
}

template <size_t nq, size_t o1, size_t o2, size_t d>
void add1(std::vector<Case> &cases) {
  if constexpr (2 * nq >= o1 + o2 + d + 1) {
    // coarsest rule that is still exact, and every finer one up to MAXQ
    for (size_t n = 2; n <= MAXN; n++)
      for (auto wa : windows(n))
        cases.push_back({"quad/q" + std::to_string(nq) + "/o" + std::to_string(o1) + "x" + std::to_string(o2) + "/d" + std::to_string(d) + "/n" + std::to_string(n) + "/wa" + W(wa),
                         [=] { quad_case<nq, o1, o2, d>(n, wa); }});
  }
}
template <size_t nq, size_t o1, size_t o2>
void add_d(std::vector<Case> &cases) {
  add1<nq, o1, o2, 0>(cases);
  add1<nq, o1, o2, 1>(cases);
  add1<nq, o1, o2, 2>(cases);
}
template <size_t nq, size_t o1, size_t o2>
void add_o(std::vector<Case> &cases) {
  add_d<nq, o1, o2>(cases);
  if constexpr (o2 > 0)
    add_o<nq, o1, o2 - 1>(cases);
  else if constexpr (o1 > 0)
    add_o<nq, o1 - 1, MAXO>(cases);
}
template <size_t nq>
void add_q(std::vector<Case> &cases) {
  add_o<nq, MAXO, MAXO>(cases);
  if constexpr (nq > 1) add_q<nq - 1>(cases);
}
#ifdef LARGE
// fixed rational grid: sampled window pairs of a LARGE-point grid, and higher orders / finer rules on a 3-point grid
#ifndef NSAMPLE
#define NSAMPLE 7
#endif
template <size_t nq, size_t o1, size_t o2, size_t d>
void add_large(std::vector<Case> &cases, size_t n) {
  static_assert(2 * nq >= o1 + o2 + d + 1, "rule must be exact");
  auto wbs = n > 8 ? windows_sample(n, NSAMPLE, 41 + o1) : windows(n);
  for (auto wa : (n > 8 ? windows_sample(n, NSAMPLE, 42 + o2) : windows(n, false)))
    cases.push_back({"quad-large/q" + std::to_string(nq) + "/o" + std::to_string(o1) + "x" + std::to_string(o2) + "/d" + std::to_string(d) + "/n" + std::to_string(n) + "/wa" + W(wa),
                     [=] { quad_case<nq, o1, o2, d>(n, wa, wbs); }});
}
void hx_cases(std::vector<Case> &cases) {
  add_large<2, 1, 1, 1>(cases, LARGE);
  add_large<3, 2, 1, 2>(cases, LARGE);
  add_large<2, 0, 3, 0>(cases, LARGE);
  add_large<4, 3, 3, 1>(cases, 3);
  add_large<4, 5, 2, 0>(cases, 3);
  add_large<5, 4, 4, 1>(cases, 3);
  add_large<5, 6, 3, 0>(cases, 2);
  add_large<5, 2, 5, 2>(cases, 2);
  // rules with more than 5 points (interpolation model of the exact rule, see symt/stub): order sums up to 24
  add_large<6, 5, 5, 1>(cases, 3);
  add_large<8, 7, 7, 1>(cases, 2);
  add_large<11, 10, 11, 0>(cases, 2);
  add_large<11, 12, 9, 0>(cases, 2);
  add_large<13, 12, 12, 1>(cases, 2);
}
#else
void hx_cases(std::vector<Case> &cases) { add_q<MAXQ>(cases); }
#endif
