// C12: interpolation reproduces the data with the promised smoothness and boundary conditions.
// Real code executed: interpolation::interpolate<T,order,Solver> (row assembly, boundary rows, solution copy),
// internal::defaultBoundaries, internal::facultyRatio, Support::operator[]/size/back, Spline constructor, Spline::operator().
// The linear solver is a nondeterministic stub: solve() returns an ARBITRARY solution of the assembled system
// (fresh variables constrained by M x = b), i.e. exactly the contract of an exact solver.
#include "../harness.h"
#include <bspline/interpolation/interpolation.h>
using namespace hx;
using namespace bspline::interpolation;
#ifndef MAXO
#define MAXO 3
#endif
#ifndef MAXNODES
#define MAXNODES 4
#endif
#ifndef FULLSEQ_MAXO
#define FULLSEQ_MAXO 3  // up to this order every ordered sequence of boundary conditions is enumerated
#endif

struct StubSolver final : bspline::interpolation::internal::ISolver<Real> {
  size_t n;
  std::vector<Real> m, bb, xx;
  explicit StubSolver(size_t p) : n(p), m(p * p, Real(0)), bb(p, Real(0)), xx(p, Real(0)) {}
  Real &M(size_t i, size_t j) override { return m.at(i * n + j); }
  Real &b(size_t i) override { return bb.at(i); }
  Real &x(size_t i) override { return xx.at(i); }
  void solve() override {
    for (size_t i = 0; i < n; i++) xx[i] = Real::var("sol" + std::to_string(i));
    for (size_t i = 0; i < n; i++) {
      Real s(0);
      for (size_t j = 0; j < n; j++) s = s + m[i * n + j] * xx[j];
      Engine::get().assume(sym::eq(s, bb[i]));
    }
  }
};

// bcs: sequence of (node, derivative) for the order-1 boundary conditions; empty = library default
template <size_t order>
void interp_case(size_t nodes, size_t left_pad, size_t right_pad, std::vector<std::pair<int, size_t>> bcs, bool use_default) {
  auto &E = Engine::get();
  size_t n = nodes + left_pad + right_pad;
  auto g = gridpoints(n);   // symbolic abscissae; fixed irregular rationals with -DFIXED_GRID (many nodes / high orders)
  Grid<Real> grid(g);
  Support<Real> sup(grid, left_pad, left_pad + nodes);
  std::vector<Real> y;
  for (size_t k = 0; k < nodes; k++) y.push_back(Real::var("y" + std::to_string(k)));
  std::array<Boundary<Real>, order - 1> bo;
  if (use_default) {
    bo = bspline::interpolation::internal::defaultBoundaries<Real, order>();
    bcs.clear();
    for (size_t i = 0; i + 1 < order; i++) bcs.push_back({i % 2 == 0 ? 0 : 1, i / 2 + 1});  // documented default: lowest derivatives, alternating first/last
  } else {
    for (size_t i = 0; i + 1 < order; i++) bo[i] = Boundary<Real>{bcs[i].first == 0 ? Node::FIRST : Node::LAST, bcs[i].second, Real::var("bv" + std::to_string(i))};
  }
  Spline<Real, order> s = use_default ? interpolate<Real, order, StubSolver>(sup, y) : interpolate<Real, order, StubSolver>(sup, y, bo);
  if (!E.sat(Bool::T())) {
    stats().notes.push_back("assembled system is contradictory for every input (not uniquely solvable): outside the claim");
    return;
  }
  stats().obligations++;
  if (shape_ok(s, n))
    stats().discharged++;
  else
    E.fail("result-shape", "structure", "returned spline has an inconsistent window/coefficient count");
  size_t a0 = left_pad;  // absolute index of the first node
  for (size_t k = 0; k < nodes; k++) {
    E.prove("value-at-node" + std::to_string(k), sym::eq(s(g[a0 + k]), y[k]));
    if (k > 0) E.prove("left-piece-at-node" + std::to_string(k), sym::eq(piece_at(s, g, a0 + k - 1, g[a0 + k]), y[k]));
    if (k + 1 < nodes) E.prove("right-piece-at-node" + std::to_string(k), sym::eq(piece_at(s, g, a0 + k, g[a0 + k]), y[k]));
  }
  for (size_t k = 1; k + 1 < nodes; k++)
    for (size_t d = 1; d < order; d++)
      E.prove("derivative" + std::to_string(d) + "-continuous-at-node" + std::to_string(k),
              sym::eq(piece_deriv_at(s, g, a0 + k - 1, d, g[a0 + k]), piece_deriv_at(s, g, a0 + k, d, g[a0 + k])));
  for (size_t i = 0; i + 1 < order; i++) {
    Real want = use_default ? Real(0) : bo[i].value;
    Real got = bcs[i].first == 0 ? piece_deriv_at(s, g, a0, bcs[i].second, g[a0]) : piece_deriv_at(s, g, a0 + nodes - 2, bcs[i].second, g[a0 + nodes - 1]);
    E.prove("boundary" + std::to_string(i) + (bcs[i].first == 0 ? "-first-d" : "-last-d") + std::to_string(bcs[i].second), sym::eq(got, want));
  }
  E.control("perturbed-node-value", sym::eq(s(g[a0 + nodes - 1]), y[nodes - 1] + Real(1)));
}

static void sequences(size_t order, size_t len, std::vector<std::pair<int, size_t>> &cur, std::vector<std::vector<std::pair<int, size_t>>> &out, bool ordered) {
  if (cur.size() == len) {
    out.push_back(cur);
    return;
  }
  for (int node = 0; node < 2; node++)
    for (size_t d = 1; d <= order; d++) {
      std::pair<int, size_t> c{node, d};
      if (!ordered && !cur.empty() && c < cur.back()) continue;
      cur.push_back(c);
      sequences(order, len, cur, out, ordered);
      cur.pop_back();
    }
}
template <size_t order>
void add(std::vector<Case> &cases) {
  for (size_t nodes = 2; nodes <= MAXNODES; nodes++)
    for (int pad = 0; pad < 3; pad++) {
      size_t lp = pad == 0 ? 0 : (pad == 1 ? 1 : 2), rp = pad == 0 ? 0 : (pad == 1 ? 1 : 0);
      std::string base = "interp/o" + std::to_string(order) + "/nodes" + std::to_string(nodes) + "/pad" + std::to_string(lp) + "," + std::to_string(rp);
      cases.push_back({base + "/default", [=] { interp_case<order>(nodes, lp, rp, {}, true); }});
      if (order >= 2) {
        std::vector<std::vector<std::pair<int, size_t>>> seqs;
        std::vector<std::pair<int, size_t>> cur;
        sequences(order, order - 1, cur, seqs, order <= FULLSEQ_MAXO);
        if (pad == 2 && order > 2) continue;  // asymmetric padding: default + order 2 only
        for (auto &sq : seqs) {
          std::string id = base + "/bc";
          for (auto &c : sq) id += (c.first == 0 ? "F" : "L") + std::to_string(c.second);
          cases.push_back({id, [=] { interp_case<order>(nodes, lp, rp, sq, false); }});
        }
      }
    }
  if constexpr (order > 1) add<order - 1>(cases);
}
#ifdef FIXED_GRID
// many nodes and high orders on fixed rational abscissae (ordinates, boundary values and the solver output symbolic)
template <size_t order>
void add_large(std::vector<Case> &cases, std::initializer_list<size_t> node_counts) {
  for (size_t nodes : node_counts)
    for (auto pad : std::vector<std::pair<size_t, size_t>>{{0, 0}, {2, 1}, {5, 0}}) {
      if (nodes + pad.first + pad.second > 20) continue;
      std::string base = "interp-large/o" + std::to_string(order) + "/nodes" + std::to_string(nodes) + "/pad" + std::to_string(pad.first) + "," + std::to_string(pad.second);
      cases.push_back({base + "/default", [=] { interp_case<order>(nodes, pad.first, pad.second, {}, true); }});
      if constexpr (order >= 2) {
        // all conditions on the last node with the highest derivatives / alternating with the second derivative first
        std::vector<std::pair<int, size_t>> sq1, sq2;
        for (size_t i = 0; i + 1 < order; i++) { sq1.push_back({1, order - i}); sq2.push_back({(int)(i % 2), i / 2 + 2 <= order ? i / 2 + 2 : 1}); }
        cases.push_back({base + "/bc-last-high", [=] { interp_case<order>(nodes, pad.first, pad.second, sq1, false); }});
        if (order >= 3) cases.push_back({base + "/bc-alternating-from-2", [=] { interp_case<order>(nodes, pad.first, pad.second, sq2, false); }});
      }
    }
}
void hx_cases(std::vector<Case> &cases) {
  add_large<1>(cases, {7, 9, 13, 17});
  add_large<2>(cases, {7, 9, 12, 16});
  add_large<3>(cases, {7, 8, 9, 13});
  add_large<4>(cases, {7, 9});
  add_large<5>(cases, {2, 3, 5});
  add_large<6>(cases, {2, 4});
  add_large<8>(cases, {2, 3});
#ifdef LARGE_MORE
  add_large<3>(cases, {10, 11, 12, 16});
  add_large<4>(cases, {8, 12, 13});
  add_large<7>(cases, {2, 3, 5});
  add_large<10>(cases, {2, 3});
  add_large<12>(cases, {2});
#endif
}
#else
void hx_cases(std::vector<Case> &cases) { add<MAXO>(cases); }
#endif
