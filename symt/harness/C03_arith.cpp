// C03: spline arithmetic is pointwise arithmetic of the denoted functions.
// Real code executed: Spline::operator+,-,* (all order pairs), * and / by scalar, unary minus, +=,-=,*=,/=,
// cross-order operator=, operator*(T,Spline), linearCombination (both overloads), internal::add/changearraysize/make_array,
// Support::calcUnion/calcIntersection/intervalIndexFromAbsolute/absoluteFromRelative, Spline constructor validation.
#include "../harness.h"
using namespace hx;
#ifndef MAXN
#define MAXN 5
#endif
#ifndef MAXO
#define MAXO 2
#endif
#ifndef LCN
#define LCN 4
#endif

// r must denote f(a,b) on every interval of the grid (zero polynomial where r is not supported)
template <class R, class FA>
void same_function(const std::string &key, const R &r, const std::vector<Real> &g, size_t n, const Real &x, FA expected_at) {
  auto &E = Engine::get();
  if (!shape_ok(r, n)) E.fail(key + "/shape", "structure", "result window/coefficient count inconsistent");
  for (size_t gi = 0; gi + 1 < n; gi++) E.prove(key + "/iv" + std::to_string(gi), sym::eq(piece_at(r, g, gi, x), expected_at(gi)));
}

template <size_t oa, size_t ob>
void binary_case(size_t n, std::pair<size_t, size_t> wa, std::vector<std::pair<size_t, size_t>> wbs = {}) {
  if (wbs.empty()) wbs = windows(n);
  auto &E = Engine::get();
  auto g = gridpoints(n);
  Grid<Real> grid(g);
  Real x = Real::var("x");
  auto a = mkspline<oa>(grid, wa.first, wa.second, "a");
  bool first = true;
  for (auto wb : wbs) {
    auto b = mkspline<ob>(grid, wb.first, wb.second, "b");
    auto A = [&](size_t gi) { return piece_at(a, g, gi, x); };
    auto B = [&](size_t gi) { return piece_at(b, g, gi, x); };
    std::string k = "wb" + W(wb) + "/";
    same_function(k + "add", a + b, g, n, x, [&](size_t gi) { return A(gi) + B(gi); });
    same_function(k + "sub", a - b, g, n, x, [&](size_t gi) { return A(gi) - B(gi); });
    same_function(k + "mul", a * b, g, n, x, [&](size_t gi) { return A(gi) * B(gi); });
    if constexpr (ob <= oa) {
      // in-place forms on a target with arbitrary prior state (inductive step: any history of the target)
      auto t = a;
      t += b;
      same_function(k + "iadd", t, g, n, x, [&](size_t gi) { return A(gi) + B(gi); });
      auto u = a;
      u -= b;
      same_function(k + "isub", u, g, n, x, [&](size_t gi) { return A(gi) - B(gi); });
      auto v = a;
      v += b;
      v -= b;
      v += b;
      same_function(k + "iseq3", v, g, n, x, [&](size_t gi) { return A(gi) + B(gi); });
    }
    if constexpr (ob < oa) {
      // assigning a lower-order spline to a higher-order object that already holds arbitrary data
      auto t = a;
      t = b;
      same_function(k + "assign-lower", t, g, n, x, [&](size_t gi) { return B(gi); });
      t += a;
      same_function(k + "assign-lower-then-add", t, g, n, x, [&](size_t gi) { return A(gi) + B(gi); });
    }
    if (first && wa.second > wa.first + 1) {
      first = false;
      E.control("perturbed-sum", sym::eq(piece_at(a + b, g, wa.first, x), A(wa.first) + B(wa.first) + Real(1)));
    }
  }
}

// the same object on both sides of an operator
template <size_t o>
void alias_case(size_t n) {
  auto g = gridpoints(n);
  Grid<Real> grid(g);
  Real x = Real::var("x"), c = Real::var("c");
  for (auto w : windows(n)) {
    auto a = mkspline<o>(grid, w.first, w.second, "a");
    auto A = [&](size_t gi) { return piece_at(a, g, gi, x); };
    std::string k = "w" + W(w) + "/";
    { auto t = a; auto *p = &t; t -= *p; same_function(k + "t-=t", t, g, n, x, [&](size_t) { return Real(0); }); }
    { auto t = a; auto *p = &t; t += *p; same_function(k + "t+=t", t, g, n, x, [&](size_t gi) { return A(gi) + A(gi); }); }
    { auto t = a; auto *p = &t; t = *p; t *= c; t -= a; same_function(k + "t=t;t*=c;t-=a", t, g, n, x, [&](size_t gi) { return A(gi) * c - A(gi); }); }
    same_function(k + "a+a", a + a, g, n, x, [&](size_t gi) { return A(gi) + A(gi); });
    same_function(k + "a-a", a - a, g, n, x, [&](size_t) { return Real(0); });
    same_function(k + "a*a", a * a, g, n, x, [&](size_t gi) { return A(gi) * A(gi); });
    { std::vector<Spline<Real, o>> S{a, a}; std::vector<Real> C{c, c}; same_function(k + "lincomb(a,a)", bspline::linearCombination(C, S), g, n, x, [&](size_t gi) { return c * A(gi) + c * A(gi); }); }
  }
}

template <size_t oa>
void scalar_case(size_t n) {
  auto &E = Engine::get();
  auto g = gridpoints(n);
  Grid<Real> grid(g);
  Real x = Real::var("x"), c = Real::var("c"), d = Real::var("d");
  E.assume(sym::ne(d, Real(0)));
  for (auto wa : windows(n)) {
    auto a = mkspline<oa>(grid, wa.first, wa.second, "a");
    auto A = [&](size_t gi) { return piece_at(a, g, gi, x); };
    std::string k = "wa" + W(wa) + "/";
    same_function(k + "a*c", a * c, g, n, x, [&](size_t gi) { return A(gi) * c; });
    same_function(k + "c*a", c * a, g, n, x, [&](size_t gi) { return c * A(gi); });
    same_function(k + "a/d", a / d, g, n, x, [&](size_t gi) { return A(gi) / d; });
    same_function(k + "neg", -a, g, n, x, [&](size_t gi) { return -A(gi); });
    auto t = a;
    t *= c;
    same_function(k + "imul", t, g, n, x, [&](size_t gi) { return A(gi) * c; });
    t /= d;
    same_function(k + "imul-idiv", t, g, n, x, [&](size_t gi) { return A(gi) * c / d; });
    t *= d;
    t += a;
    same_function(k + "imul-idiv-imul-iadd", t, g, n, x, [&](size_t gi) { return A(gi) * c + A(gi); });
  }
  auto a = mkspline<oa>(grid, 0, n, "a");
  E.control("perturbed-scale", sym::eq(piece_at(a * c, g, 0, x), piece_at(a, g, 0, x) * c + Real(1)));
}

// linearCombination over 2 or 3 splines with independent windows
template <size_t o>
void lincomb_case(size_t n, std::pair<size_t, size_t> w0, std::pair<size_t, size_t> w1) {
  auto &E = Engine::get();
  auto g = gridpoints(n);
  Grid<Real> grid(g);
  Real x = Real::var("x");
  std::vector<Real> c{Real::var("k0"), Real::var("k1"), Real::var("k2")};
  auto s0 = mkspline<o>(grid, w0.first, w0.second, "p"), s1 = mkspline<o>(grid, w1.first, w1.second, "q");
  {
    std::vector<Spline<Real, o>> S{s0, s1};
    std::vector<Real> C{c[0], c[1]};
    auto r = bspline::linearCombination(C, S);
    same_function("lc2", r, g, n, x, [&](size_t gi) { return c[0] * piece_at(s0, g, gi, x) + c[1] * piece_at(s1, g, gi, x); });
    auto r2 = bspline::linearCombination(C.begin(), C.end(), S.begin(), S.end());
    same_function("lc2-iter", r2, g, n, x, [&](size_t gi) { return c[0] * piece_at(s0, g, gi, x) + c[1] * piece_at(s1, g, gi, x); });
  }
  for (auto w2 : windows(n)) {
    auto s2 = mkspline<o>(grid, w2.first, w2.second, "r");
    // the third spline is placed at every position of the collection
    for (int pos = 0; pos < 3; pos++) {
      std::vector<Spline<Real, o>> S;
      if (pos == 0) S = {s2, s0, s1};
      if (pos == 1) S = {s0, s2, s1};
      if (pos == 2) S = {s0, s1, s2};
      auto r = bspline::linearCombination(c, S);
      same_function("lc3/w2" + W(w2) + "/pos" + std::to_string(pos), r, g, n, x, [&](size_t gi) {
        return c[0] * piece_at(S[0], g, gi, x) + c[1] * piece_at(S[1], g, gi, x) + c[2] * piece_at(S[2], g, gi, x);
      });
    }
  }
  if (w0.second > w0.first + 1)
    E.control("perturbed-lc", sym::eq(piece_at(bspline::linearCombination(std::vector<Real>{c[0]}, std::vector<Spline<Real, o>>{s0}), g, w0.first, x),
                                      c[0] * piece_at(s0, g, w0.first, x) + Real(1)));
}

template <size_t oa, size_t ob>
void add_bin(std::vector<Case> &cases) {
  for (size_t n = 2; n <= MAXN; n++)
    for (auto wa : windows(n))
      cases.push_back({"bin/o" + std::to_string(oa) + "x" + std::to_string(ob) + "/n" + std::to_string(n) + "/wa" + W(wa), [=] { binary_case<oa, ob>(n, wa); }});
}
template <size_t oa, size_t ob>
void add_bin_all(std::vector<Case> &cases) {
  add_bin<oa, ob>(cases);
  if constexpr (ob > 0)
    add_bin_all<oa, ob - 1>(cases);
  else if constexpr (oa > 0)
    add_bin_all<oa - 1, MAXO>(cases);
}
template <size_t o>
void add_rest(std::vector<Case> &cases) {
  for (size_t n = 2; n <= MAXN; n++) cases.push_back({"scalar/o" + std::to_string(o) + "/n" + std::to_string(n), [=] { scalar_case<o>(n); }});
  for (size_t n = 2; n <= MAXN; n++) cases.push_back({"alias/o" + std::to_string(o) + "/n" + std::to_string(n), [=] { alias_case<o>(n); }});
  for (size_t n = 2; n <= LCN; n++)
    for (auto w0 : windows(n))
      for (auto w1 : windows(n))
        cases.push_back({"lincomb/o" + std::to_string(o) + "/n" + std::to_string(n) + "/w" + W(w0) + "," + W(w1), [=] { lincomb_case<o>(n, w0, w1); }});
  if constexpr (o > 0) add_rest<o - 1>(cases);
}
// linearCombination over k splines (k beyond the 3 of lincomb_case) with sampled windows; the same spline may occur twice
template <size_t o>
void lincomb_many_case(size_t n, size_t k, unsigned long seed) {
  auto g = gridpoints(n);
  Grid<Real> grid(g);
  Real x = Real::var("x");
  auto ws = windows_sample(n, k + 7, seed);
  std::vector<Spline<Real, o>> S;
  std::vector<Real> C;
  for (size_t i = 0; i < k; i++) {
    auto w = ws[(i * 5 + seed) % ws.size()];
    S.push_back(mkspline<o>(grid, w.first, w.second, "s" + std::to_string(i) + "_"));
    C.push_back(Real::var("k" + std::to_string(i)));
  }
  if (k >= 4 && seed % 2) S[k - 1] = S[1];  // a repeated member
  auto expect = [&](size_t gi) {
    Real r(0);
    for (size_t i = 0; i < k; i++) r = r + C[i] * piece_at(S[i], g, gi, x);
    return r;
  };
  same_function("lc-many", bspline::linearCombination(C, S), g, n, x, expect);
  same_function("lc-many-iter", bspline::linearCombination(C.begin(), C.end(), S.begin(), S.end()), g, n, x, expect);
}
#ifdef LARGE
// large structural sizes on the fixed rational grid (coefficients, scalars and x symbolic): sampled window pairs of a LARGE-point
// grid, scalar and aliasing forms on every window, linear combinations of up to LCMANY splines
#ifndef LCMANY
#define LCMANY 9
#endif
#ifndef NSAMPLE
#define NSAMPLE 8
#endif
template <size_t oa, size_t ob>
void add_bin_large(std::vector<Case> &cases) {
  auto wbs = windows_sample(LARGE, NSAMPLE, 8 + oa);
  for (auto wa : windows_sample(LARGE, NSAMPLE, 7 + ob))
    cases.push_back({"bin-large/o" + std::to_string(oa) + "x" + std::to_string(ob) + "/n" + std::to_string(LARGE) + "/wa" + W(wa), [=] { binary_case<oa, ob>(LARGE, wa, wbs); }});
}
void hx_cases(std::vector<Case> &cases) {
  add_bin_large<1, 1>(cases);
  add_bin_large<2, 1>(cases);
  add_bin_large<0, 2>(cases);
  cases.push_back({"scalar-large/o1/n" + std::to_string(LARGE), [=] { scalar_case<1>(LARGE); }});
  cases.push_back({"alias-large/o1/n" + std::to_string(LARGE), [=] { alias_case<1>(LARGE); }});
  for (size_t k = 4; k <= LCMANY; k++)
    for (unsigned long seed = 1; seed <= 2; seed++)
      cases.push_back({"lincomb-many/o1/n" + std::to_string(LARGE) + "/k" + std::to_string(k) + "/s" + std::to_string(seed), [=] { lincomb_many_case<1>(LARGE, k, seed); }});
  for (size_t k = 4; k <= 6; k++) cases.push_back({"lincomb-many/o2/n7/k" + std::to_string(k), [=] { lincomb_many_case<2>(7, k, 3); }});
}
#elif defined(FIXED_GRID)
// high orders on a fixed irregular rational grid (coefficients, scalars and x symbolic)
static constexpr std::array<size_t, 4> HO{4, 6, 9, 10};
template <size_t... I>
void add_high(std::vector<Case> &cases, std::index_sequence<I...>) {
  (add_bin<HO[I / HO.size()], HO[I % HO.size()]>(cases), ...);
}
void hx_cases(std::vector<Case> &cases) {
  add_high(cases, std::make_index_sequence<HO.size() * HO.size()>{});
  for (size_t n = 2; n <= MAXN; n++) {
    cases.push_back({"scalar/o8/n" + std::to_string(n), [=] { scalar_case<8>(n); }});
    cases.push_back({"scalar/o10/n" + std::to_string(n), [=] { scalar_case<10>(n); }});
    for (auto w0 : windows(n, false)) cases.push_back({"lincomb/o7/n" + std::to_string(n) + "/w" + W(w0), [=] { lincomb_case<7>(n, w0, {0, n}); }});
  }
}
#else
void hx_cases(std::vector<Case> &cases) {
  add_bin_all<MAXO, MAXO>(cases);
  add_rest<MAXO>(cases);
}
#endif
