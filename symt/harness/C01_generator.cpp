// C01: generated basis functions are exactly the Cox-de Boor B-splines of the knots.
// Real code executed: BSplineGenerator(knots), BSplineGenerator(knots, grid), generateGrid (std::unique), Grid validation,
// generateBSplines<p>, generateZerothOrderSplines, Grid::findElement, applyRecursionRelation<k>, X<1>, scalar operators,
// OperatorSum/ScalarMultiplication transforms, Spline +=, cross-order operator=, free function generateBSplines<p>(knots).
#include "../harness.h"
#include <map>
#include <tuple>
using namespace hx;
#ifndef MAXP
#define MAXP 3
#endif
#ifndef EXTRA
#define EXTRA 4  // m <= p + EXTRA
#endif

// Cox-de Boor recursion evaluated at symbolic x for x inside grid interval gl (between distinct values gl and gl+1);
// terms with a zero-width denominator are dropped. cls[k] = index of the distinct value of knot k.
// (memoised per case on (i, p, gl): the recursion tree has 2^p leaves)
static std::map<std::tuple<size_t, size_t, int>, Real> &refmemo() {
  static std::map<std::tuple<size_t, size_t, int>, Real> m;
  return m;
}
static Real refB(const std::vector<Real> &t, const std::vector<int> &cls, size_t i, size_t p, int gl, const Real &x);
static Real refB_m(const std::vector<Real> &t, const std::vector<int> &cls, size_t i, size_t p, int gl, const Real &x) {
  auto key = std::make_tuple(i, p, gl);
  auto it = refmemo().find(key);
  if (it != refmemo().end()) return it->second;
  Real r = refB(t, cls, i, p, gl, x);
  refmemo().emplace(key, r);
  return r;
}
static Real refB(const std::vector<Real> &t, const std::vector<int> &cls, size_t i, size_t p, int gl, const Real &x) {
  if (p == 0) return Real((cls[i] != cls[i + 1] && cls[i] == gl) ? 1 : 0);
  Real r(0);
  if (cls[i + p] != cls[i]) r = r + (x - t[i]) / (t[i + p] - t[i]) * refB_m(t, cls, i, p - 1, gl, x);
  if (cls[i + p + 1] != cls[i + 1]) r = r + (t[i + p + 1] - x) / (t[i + p + 1] - t[i + 1]) * refB_m(t, cls, i + 1, p - 1, gl, x);
  return r;
}
template <size_t p>
void gen_case(std::vector<size_t> mult) {
  auto &E = Engine::get();
  refmemo().clear();
  size_t c = mult.size(), m = 0;
  for (auto q : mult) m += q;
#ifdef FIXED_KNOTS
  // high orders: distinct knot values are fixed irregular rationals (a symbolic knot raised to the 10th power is out of
  // reach for nlsat); x, and therefore every polynomial identity, stays symbolic
  static const long long NUM[] = {-7, -1, 0, 2, 1, 9, 3, 11, 7, 8, 10, 45, 13, 29, 17, 37, 20, 64, 22, 91}, DEN[] = {3, 2, 1, 5, 1, 4, 1, 2, 1, 1, 1, 4, 1, 2, 1, 2, 1, 3, 1, 4};
  if (c > 20) throw std::logic_error("20 fixed knot values");
  std::vector<Real> v;
  for (size_t j = 0; j < c; j++) v.push_back(Real::frac(NUM[j], DEN[j]));
#else
  auto v = gridvars(c, "v");
#endif
  std::vector<Real> t;
  std::vector<int> cls;
  for (size_t j = 0; j < c; j++)
    for (size_t q = 0; q < mult[j]; q++) {
      t.push_back(v[j]);
      cls.push_back((int)j);
    }
  Real x = Real::var("x");
  if (m < p + 1) {
    bool thrown = false;
    try {
      bspline::BSplineGenerator<Real> gen(t);
      (void)gen.template generateBSplines<p>();
    } catch (bspline::exceptions::BSplineException &) {
      thrown = true;
    }
    stats().obligations++;
    if (thrown)
      stats().discharged++;
    else
      E.fail("too-few-knots-refused", "structure", "fewer than p+1 knots accepted");
    return;
  }
  bspline::BSplineGenerator<Real> gen(t);
  std::vector<Spline<Real, p>> B = gen.template generateBSplines<p>();
  stats().obligations++;
  if (B.size() == m - p - 1)
    stats().discharged++;
  else
    E.fail("function-count", "structure", "got " + std::to_string(B.size()) + " functions, expected " + std::to_string(m - p - 1));
  // the generator's grid is the sequence of distinct knot values
  {
    auto gg = gen.getGrid();
    stats().obligations++;
    if (gg.size() != c)
      E.fail("grid-size", "structure", "grid has " + std::to_string(gg.size()) + " points, expected " + std::to_string(c));
    else {
      stats().discharged++;
      for (size_t j = 0; j < c; j++) E.prove("grid-point" + std::to_string(j), sym::eq(gg[j], v[j]));
    }
  }
  bool ctl = false;
  for (size_t i = 0; i < B.size(); i++) {
    if (!shape_ok(B[i], c)) E.fail("shape/B" + std::to_string(i), "structure", "window/coefficient count inconsistent");
    for (size_t gi = 0; gi + 1 < c; gi++) {
      Real lib = piece_at(B[i], v, gi, x), ref = refB(t, cls, i, p, (int)gi, x);
      E.prove("cox-de-boor/B" + std::to_string(i) + "/iv" + std::to_string(gi), sym::eq(lib, ref));
      if (!ctl && cls[i] <= (int)gi && (int)gi < cls[i + p + 1]) {
        ctl = true;
        E.control("perturbed-basis-function", sym::eq(lib, ref + Real(1)));
      }
    }
  }
  // partition of unity on every interval inside [t_p, t_{m-p-1}]
  if (B.size() > 0)
    for (int gi = cls[p]; gi < cls[m - p - 1]; gi++) {
      Real sum(0);
      for (auto &b : B) sum = sum + piece_at(b, v, gi, x);
      E.prove("partition-of-unity/iv" + std::to_string(gi), sym::eq(sum, Real(1)));
    }
#ifdef SMOOTHNESS
  // C^{p-mu} across an interior grid point of multiplicity mu: derivatives 0..p-mu of adjacent pieces agree there
  for (size_t j = 1; j + 1 < c; j++)
    for (size_t i = 0; i < B.size(); i++)
      for (size_t k = 0; k + mult[j] <= p; k++)
        E.prove("smooth/B" + std::to_string(i) + "/pt" + std::to_string(j) + "/d" + std::to_string(k),
                sym::eq(piece_deriv_at(B[i], v, j - 1, k, v[j]), piece_deriv_at(B[i], v, j, k, v[j])));
#endif
  // a generator is reusable: further calls on the same object (same order, lower order, same order again) give the same functions
  {
    stats().obligations++;
    bool same = true;
    std::string why;
    try {
      auto again = gen.template generateBSplines<p>();
      same = again.size() == B.size();
      for (size_t i = 0; same && i < B.size(); i++) same = (again[i] == B[i]);
      if constexpr (p > 0) {
        auto lower = gen.template generateBSplines<p - 1>();
        same = same && lower.size() == m - p;
        auto third = gen.template generateBSplines<p>();
        same = same && third.size() == B.size();
        for (size_t i = 0; same && i < B.size(); i++) same = (third[i] == B[i]);
      }
    } catch (bspline::exceptions::BSplineException &e) {
      same = false;
      why = e.what();
    }
    if (same)
      stats().discharged++;
    else
      E.fail("generator-reusable", "structure", "a second call on the same generator gives different functions or throws " + why);
  }
  // supplied-grid route: a distinct grid object with the same points gives equal splines
  {
    Grid<Real> grid2(v);
    bspline::BSplineGenerator<Real> gen2(t, grid2);
    auto B2 = gen2.template generateBSplines<p>();
    stats().obligations++;
    bool same = B2.size() == B.size();
    for (size_t i = 0; same && i < B.size(); i++) same = (B2[i] == B[i]) && !(B2[i] != B[i]);
    if (same)
      stats().discharged++;
    else
      E.fail("supplied-grid-route", "structure", "splines from (knots, grid) differ from splines from knots alone");
    auto B3 = bspline::generateBSplines<p>(t);
    stats().obligations++;
    bool same3 = B3.size() == B.size();
    for (size_t i = 0; same3 && i < B.size(); i++) same3 = (B3[i] == B[i]);
    if (same3)
      stats().discharged++;
    else
      E.fail("free-function-route", "structure", "generateBSplines<p>(knots) differs from the generator object");
  }
}

static void compositions(size_t m, std::vector<size_t> &cur, std::vector<std::vector<size_t>> &out) {
  if (m == 0) {
    if (cur.size() >= 2) out.push_back(cur);
    return;
  }
  for (size_t q = 1; q <= m; q++) {
    cur.push_back(q);
    compositions(m - q, cur, out);
    cur.pop_back();
  }
}
#ifndef MINP
#define MINP 0
#endif
template <size_t p>
void add(std::vector<Case> &cases) {
  for (size_t m = (MINP > 0 ? p : 2); m <= p + EXTRA; m++) {
    std::vector<std::vector<size_t>> comps;
    std::vector<size_t> cur;
    compositions(m, cur, comps);
    for (auto &mult : comps) {
      std::string id = "gen/p" + std::to_string(p) + "/m" + std::to_string(m) + "/mult";
      for (auto q : mult) id += std::to_string(q);
      cases.push_back({id, [=] { gen_case<p>(mult); }});
    }
  }
  if constexpr (p > MINP) add<p - 1>(cases);
}
#ifdef SPARSE
// sparse high orders and long knot vectors on fixed knot values: simple knots, clamped ends, one interior double knot
template <size_t p>
void add_sparse(std::vector<Case> &cases, size_t mmax) {
  auto push = [&](std::vector<size_t> mult) {
    std::string id = "gen-sparse/p" + std::to_string(p) + "/mult";
    for (auto q : mult) id += std::to_string(q) + ".";
    cases.push_back({id, [=] { gen_case<p>(mult); }});
  };
  for (size_t m = p + 2; m <= mmax; m += (mmax - p - 2 > 2 ? (mmax - p - 2) / 2 : 1)) {
    push(std::vector<size_t>(m, 1));
    if (m <= 19) { std::vector<size_t> d(m - 1, 1); d[(m - 1) / 2] = 2; push(d); }
  }
  push({p + 1, 1, 1, p + 1});
  push({p + 1, 2, p + 1});
}
void hx_cases(std::vector<Case> &cases) {
  add_sparse<1>(cases, 18);
  add_sparse<3>(cases, 18);
  add_sparse<8>(cases, 12);
  add_sparse<11>(cases, 14);
  add_sparse<12>(cases, 15);
  add_sparse<13>(cases, 15);
#ifdef SPARSE_MORE
  add_sparse<2>(cases, 20);
  add_sparse<5>(cases, 20);
  add_sparse<9>(cases, 13);
  add_sparse<14>(cases, 17);
  add_sparse<15>(cases, 18);
  add_sparse<16>(cases, 18);
#endif
}
#else
void hx_cases(std::vector<Case> &cases) { add<MAXP>(cases); }
#endif
