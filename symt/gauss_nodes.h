// Exact Gauss-Legendre nodes/weights for the verification stub of boost::math::quadrature::gauss (C17, C08).
// N = 1 is rational. N = 2..5 use algebraic numbers introduced through sym::algebraic (a fresh positive symbol
// constrained by its defining equation in the symbolic build; an element of a tower of quadratic extensions of Q
// in the concrete replay build).
#pragma once
#include <boost/math/quadrature/gauss.hpp>  // the stub (symt/stub precedes the system include path)
namespace boost { namespace math { namespace quadrature {
using sym::Real;
template <> struct gauss_nodes<Real, 1> {
  static Real node(unsigned) { return Real(0); }
  static Real weight(unsigned) { return Real(2); }
};
template <> struct gauss_nodes<Real, 2> {
  static Real s() { return sym::algebraic("gl2_s", Real::frac(1, 3)); }  // s^2 = 1/3
  static Real node(unsigned i) { return i == 0 ? -s() : s(); }
  static Real weight(unsigned) { return Real(1); }
};
template <> struct gauss_nodes<Real, 3> {
  static Real s() { return sym::algebraic("gl3_s", Real::frac(3, 5)); }  // s^2 = 3/5
  static Real node(unsigned i) { return i == 0 ? -s() : (i == 1 ? Real(0) : s()); }
  static Real weight(unsigned i) { return i == 1 ? Real::frac(8, 9) : Real::frac(5, 9); }
};
template <> struct gauss_nodes<Real, 4> {
  static Real r() { return sym::algebraic("gl4_r", Real::frac(6, 5)); }                        // r = sqrt(6/5), sqrt(30) = 5 r
  static Real x1() { return sym::algebraic("gl4_x1", (Real(3) - Real(2) * r()) / Real(7)); }  // inner node
  static Real x2() { return sym::algebraic("gl4_x2", (Real(3) + Real(2) * r()) / Real(7)); }  // outer node
  static Real node(unsigned i) { return i == 0 ? -x2() : i == 1 ? -x1() : i == 2 ? x1() : x2(); }
  static Real weight(unsigned i) { return (i == 1 || i == 2) ? (Real(18) + Real(5) * r()) / Real(36) : (Real(18) - Real(5) * r()) / Real(36); }
};
template <> struct gauss_nodes<Real, 5> {
  static Real r() { return sym::algebraic("gl5_r", Real::frac(10, 7)); }                       // r = sqrt(10/7), sqrt(70) = 7 r
  static Real x1() { return sym::algebraic("gl5_x1", (Real(5) - Real(2) * r()) / Real(9)); }  // inner
  static Real x2() { return sym::algebraic("gl5_x2", (Real(5) + Real(2) * r()) / Real(9)); }  // outer
  static Real node(unsigned i) { return i == 0 ? -x2() : i == 1 ? -x1() : i == 2 ? Real(0) : i == 3 ? x1() : x2(); }
  static Real weight(unsigned i) {
    if (i == 2) return Real::frac(128, 225);
    return (i == 1 || i == 3) ? (Real(322) + Real(91) * r()) / Real(900) : (Real(322) - Real(91) * r()) / Real(900);
  }
};
}}}  // namespace boost::math::quadrature
