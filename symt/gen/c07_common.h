// C07: linear forms equal the exact integral and agree with the bilinear form (common part of the generated TUs).
// Real code executed: LinearForm::LinearForm/evaluate/operator()/evaluateInterval, deduction guide, BilinearForm::evaluate,
// Spline::operator*(Spline), operator*(Operator,Spline), all operator transforms involved.
#pragma once
#include <bspline/operators/SplineOperator.h>
using namespace hx;
using namespace bspline::operators;
using namespace bspline::integration;
#ifndef MAXN
#define MAXN 4
#endif
#ifndef MAXO
#define MAXO 3
#endif
#ifndef FO
#define FO 1
#endif
inline Poly pdivs(const Poly &a, const Real &c) {
  Poly r;
  for (auto &x : a) r.push_back(x / c);
  return r;
}
inline std::vector<std::pair<size_t, size_t>> factor_windows(size_t n, bool used) {
  if (!used) return {{0, n}};
#ifdef LARGE
  return windows_sample(n, 5, 11);
#else
  return windows(n);
#endif
}
template <class E, size_t o>
void op_case(size_t n) {
  auto &En = Engine::get();
  auto g = gridpoints(n);
  Grid<Real> grid(g);
  Real c = Real::var("c");
  if (E::divides_by_c) En.assume(sym::ne(c, Real(0)));
  bool ctl = false;
  for (auto wa : windows(n)) {
    auto a = mkspline<o>(grid, wa.first, wa.second, "a");
    for (auto wv : factor_windows(n, E::uses_factor)) {
      auto v = mkspline<FO>(grid, wv.first, wv.second, "v");
      std::string key = "wa" + W(wa) + (E::uses_factor ? "/wv" + W(wv) : std::string()) + "/";
      Real lib = LinearForm{E::make(c, v)}(a);
      Real ref(0);
      for (size_t gi = wa.first; gi + 1 < wa.second; gi++) ref = ref + pintegral(E::ref(piece(a, g, gi), c, v, g, gi), g[gi], g[gi + 1]);
      En.prove(key + "integral", sym::eq(lib, ref));
      En.prove(key + "evaluate-same", sym::eq(LinearForm{E::make(c, v)}.evaluate(a), lib));
      if (!ctl && wa.first + 1 < wa.second) {
        ctl = true;
        En.control("perturbed-integral", sym::eq(lib, ref + Real(1)));
      }
    }
    if constexpr (std::is_same_v<decltype(E::make(c, a)), IdentityOperator>) En.prove("wa" + W(wa) + "/default-form", sym::eq(LinearForm{}(a), LinearForm{IdentityOperator{}}(a)));
  }
}
template <class EA, class EB, size_t oa, size_t ob>
void link_case(size_t n, std::pair<size_t, size_t> wa, std::vector<std::pair<size_t, size_t>> wbs = {}) {
  auto &En = Engine::get();
  if (wbs.empty()) wbs = windows(n);
  auto g = gridpoints(n);
  Grid<Real> grid(g);
  Real c = Real::var("c");
  if (EA::divides_by_c || EB::divides_by_c) En.assume(sym::ne(c, Real(0)));
  auto a = mkspline<oa>(grid, wa.first, wa.second, "a");
  for (auto wb : wbs) {
    auto b = mkspline<ob>(grid, wb.first, wb.second, "b");
    auto v = mkspline<FO>(grid, 0, n, "v");
    Real bil = BilinearForm{EA::make(c, v), EB::make(c, v)}(a, b);
    Real lin = LinearForm{}((EA::make(c, v) * a) * (EB::make(c, v) * b));
    En.prove("wb" + W(wb) + "/bilinear-equals-linear-of-product", sym::eq(bil, lin));
  }
  if constexpr (oa == ob) {
    // the same spline object in both slots, operators of one C++ type that differ in state (scalar, factor spline)
    Real c2 = Real::var("c2");
    if (EA::divides_by_c || EB::divides_by_c) En.assume(sym::ne(c2, Real(0)));
    auto v = mkspline<FO>(grid, 0, n, "v"), w = mkspline<FO>(grid, n >= 3 ? 1 : 0, n, "w");
    Real bil = BilinearForm{EA::make(c, v), EB::make(c2, w)}(a, a);
    Real lin = LinearForm{}((EA::make(c, v) * a) * (EB::make(c2, w) * a));
    En.prove("same-object-both-slots/bilinear-equals-linear-of-product", sym::eq(bil, lin));
  }
  if (wa.first + 1 < wa.second) {
    auto b = mkspline<ob>(grid, wa.first, wa.second, "b");
    auto v = mkspline<FO>(grid, 0, n, "v");
    En.control("perturbed-link", sym::eq(BilinearForm{EA::make(c, v), EB::make(c, v)}(a, b), LinearForm{}((EA::make(c, v) * a) * (EB::make(c, v) * b)) + Real(1)));
  }
}
template <class E, size_t o>
void add_op_o(std::vector<Case> &cases) {
  for (size_t n = 2; n <= MAXN; n++) cases.push_back({std::string("lin/") + E::name + "/o" + std::to_string(o) + "/n" + std::to_string(n), [=] { op_case<E, o>(n); }});
  if constexpr (o > 0) add_op_o<E, o - 1>(cases);
}
#ifdef LARGE
#ifndef NSAMPLE
#define NSAMPLE 8
#endif
template <class E>
void add_op(std::vector<Case> &cases) {
  cases.push_back({std::string("lin-large/") + E::name + "/o1/n" + std::to_string(LARGE), [=] { op_case<E, 1>(LARGE); }});
  cases.push_back({std::string("lin-large/") + E::name + "/o2/n" + std::to_string(LARGE), [=] { op_case<E, 2>(LARGE); }});
}
#elif defined(FIXED_GRID)
template <class E, size_t... I>
void add_op_hi(std::vector<Case> &cases, std::index_sequence<I...>) {
  ((cases.push_back({std::string("lin-high/") + E::name + "/o" + std::to_string(I + 5) + "/n3", [=] { op_case<E, I + 5>(3); }})), ...);
}
template <class E>
void add_op(std::vector<Case> &cases) {
  add_op_hi<E>(cases, std::make_index_sequence<7>{});  // orders 5..11
}
#else
template <class E>
void add_op(std::vector<Case> &cases) {
  add_op_o<E, MAXO + 1>(cases);
}
#endif
template <class EA, class EB, size_t oa, size_t ob>
void add_link_o(std::vector<Case> &cases) {
  for (size_t n = 2; n <= MAXN; n++)
    for (auto wa : windows(n))
      cases.push_back({std::string("link/") + EA::name + "," + EB::name + "/o" + std::to_string(oa) + "x" + std::to_string(ob) + "/n" + std::to_string(n) + "/wa" + W(wa),
                       [=] { link_case<EA, EB, oa, ob>(n, wa); }});
  if constexpr (ob > 0)
    add_link_o<EA, EB, oa, ob - 1>(cases);
  else if constexpr (oa > 0)
    add_link_o<EA, EB, oa - 1, MAXO>(cases);
}
template <class EA, class EB>
void add_link(std::vector<Case> &cases) {
#ifdef LARGE
  auto wbs = windows_sample(LARGE, NSAMPLE, 31);
  for (auto wa : windows_sample(LARGE, NSAMPLE, 32)) {
    cases.push_back({std::string("link-large/") + EA::name + "," + EB::name + "/o1x2/n" + std::to_string(LARGE) + "/wa" + W(wa), [=] { link_case<EA, EB, 1, 2>(LARGE, wa, wbs); }});
    cases.push_back({std::string("link-large/") + EA::name + "," + EB::name + "/o2x0/n" + std::to_string(LARGE) + "/wa" + W(wa), [=] { link_case<EA, EB, 2, 0>(LARGE, wa, wbs); }});
  }
#elif defined(FIXED_GRID)
  for (size_t n = 2; n <= 3; n++)
    for (auto wa : windows(n, false)) {
      cases.push_back({std::string("link-high/") + EA::name + "," + EB::name + "/o6x5/n" + std::to_string(n) + "/wa" + W(wa), [=] { link_case<EA, EB, 6, 5>(n, wa); }});
      cases.push_back({std::string("link-high/") + EA::name + "," + EB::name + "/o7x8/n" + std::to_string(n) + "/wa" + W(wa), [=] { link_case<EA, EB, 7, 8>(n, wa); }});
    }
  // kernels with 24..27 coefficients of the product polynomial
  cases.push_back({std::string("link-very-high/") + EA::name + "," + EB::name + "/o12x12/n2", [=] { link_case<EA, EB, 12, 12>(2, {0, 2}); }});
  cases.push_back({std::string("link-very-high/") + EA::name + "," + EB::name + "/o13x11/n2", [=] { link_case<EA, EB, 13, 11>(2, {0, 2}); }});
#else
  add_link_o<EA, EB, MAXO, MAXO>(cases);
#endif
}
