#!/usr/bin/env python3
"""Enumerates operator expression trees and emits Engine A harness translation units (C05, C06, C07).

Each tree yields (i) the C++ expression that builds the library operator from prvalues and (ii) a reference
interpreter (nested lambdas over origin-basis polynomials) that applies the *denoted* differential expression.

usage: gen_exprs.py c05|c06|c07 <tier> <seed> <outdir> <n_tus>
prints the generated file names, one per line.
"""
import itertools, os, random, sys

LEAVES = [('I',), ('X', 1), ('X', 2), ('D', 1), ('D', 2), ('V',)]
SMALL_LEAVES = [('X', 1), ('D', 1), ('V',)]
UNARY = [('neg',)] + [(k, t) for k in ('cmulL', 'cmulR', 'div', 'addc', 'cadd', 'subc', 'csub') for t in ('T', 'int')]
# further integral scalar types (unsigned, size_t, long, short): one-level trees only
UNARY_INTS = [(k, t) for k in ('cmulL', 'cmulR', 'div', 'addc', 'cadd', 'subc', 'csub') for t in ('uint', 'size_t', 'long', 'short')]
LIT = {'int': ('2', '3'), 'uint': ('2u', '3u'), 'size_t': ('size_t{2}', 'size_t{3}'), 'long': ('2L', '3L'), 'short': ('short{2}', 'short{3}')}
BINARY = ['mul', 'add', 'sub']


def unary(kind, child):
    return (kind[0], child) if kind[0] == 'neg' else (kind[0], kind[1], child)


def lib(n):
    k = n[0]
    if k == 'I': return 'IdentityOperator{}'
    if k == 'X': return 'X<%d>{}' % n[1]
    if k == 'D': return 'Dx<%d>{}' % n[1]
    if k == 'V': return 'SplineOperator{v}'
    if k == 'neg': return '(-%s)' % lib(n[1])
    if k in ('mul', 'add', 'sub'):
        return '(%s %s %s)' % (lib(n[1]), {'mul': '*', 'add': '+', 'sub': '-'}[k], lib(n[2]))
    c = 'c' if n[1] == 'T' else LIT[n[1]][1 if k in ('addc', 'csub') else 0]
    a = lib(n[2])
    return {'cmulL': '(%s * %s)' % (c, a), 'cmulR': '(%s * %s)' % (a, c), 'div': '(%s / %s)' % (a, c), 'addc': '(%s + %s)' % (a, c),
            'cadd': '(%s + %s)' % (c, a), 'subc': '(%s - %s)' % (a, c), 'csub': '(%s - %s)' % (c, a)}[k]


def ref(n):
    """C++ lambda (const Poly&) -> Poly applying the denoted expression on grid interval gi."""
    k = n[0]
    L = '[&](const Poly &p) -> Poly '
    if k == 'I': return L + '{ return p; }'
    if k == 'X': return L + '{ Poly r = p; for (int i = 0; i < %d; i++) r = pmulx(r); return r; }' % n[1]
    if k == 'D': return L + '{ Poly r = p; for (int i = 0; i < %d; i++) r = pderiv(r); return r; }' % n[1]
    if k == 'V': return L + '{ return pmul(piece(v, g, gi), p); }'
    if k == 'neg': return L + '{ auto fa = %s; return pscale(fa(p), Real(-1)); }' % ref(n[1])
    if k == 'mul': return L + '{ auto fa = %s; auto fb = %s; return fa(fb(p)); }' % (ref(n[1]), ref(n[2]))
    if k == 'add': return L + '{ auto fa = %s; auto fb = %s; return padd(fa(p), fb(p)); }' % (ref(n[1]), ref(n[2]))
    if k == 'sub': return L + '{ auto fa = %s; auto fb = %s; return psub(fa(p), fb(p)); }' % (ref(n[1]), ref(n[2]))
    c = 'c' if n[1] == 'T' else ('Real(3)' if k in ('addc', 'csub') else 'Real(2)')
    fa = ref(n[2])
    body = {'cmulL': 'pscale(fa(p), %s)' % c, 'cmulR': 'pscale(fa(p), %s)' % c, 'div': 'pdivs(fa(p), %s)' % c, 'addc': 'padd(fa(p), pscale(p, %s))' % c,
            'cadd': 'padd(pscale(p, %s), fa(p))' % c, 'subc': 'psub(fa(p), pscale(p, %s))' % c, 'csub': 'psub(pscale(p, %s), fa(p))' % c}[k]
    return L + '{ auto fa = %s; return %s; }' % (fa, body)


def uses(n, what):
    if n[0] == what: return True
    return any(isinstance(c, tuple) and uses(c, what) for c in n[1:])


def uses_T_div(n):
    if n[0] == 'div' and n[1] == 'T': return True
    return any(isinstance(c, tuple) and uses_T_div(c) for c in n[1:])


def level1(leaves):
    out = []
    for u in UNARY:
        for l in leaves: out.append(unary(u, l))
    for b in BINARY:
        for l1 in leaves:
            for l2 in leaves: out.append((b, l1, l2))
    return out


def level2():
    inner = level1(SMALL_LEAVES)
    outer_leaves = [('I',), ('X', 1), ('D', 1), ('V',)]
    out = []
    for u in UNARY:
        for a in inner: out.append(unary(u, a))
    for b in BINARY:
        for a in inner:
            for l in outer_leaves:
                out.append((b, a, l)); out.append((b, l, a))
    return out


def random_tree(rnd, depth):
    """a random tree with builder nestings `depth` deep (leaves X<1>, Dx<1>, SplineOperator(v), I)"""
    if depth == 0: return rnd.choice(SMALL_LEAVES + [('I',)])
    if rnd.random() < 0.45:
        return unary(rnd.choice(UNARY), random_tree(rnd, depth - 1))
    b = rnd.choice(BINARY)
    deep, shallow = random_tree(rnd, depth - 1), random_tree(rnd, rnd.randrange(depth))
    return (b, deep, shallow) if rnd.random() < 0.5 else (b, shallow, deep)


def count_factors(n):
    """number of position / spline factors (each raises the order of the result by one)"""
    if n[0] in ('X', 'V'): return n[1] if n[0] == 'X' else 1
    return sum(count_factors(c) for c in n[1:] if isinstance(c, tuple)) if n[0] == 'mul' else max([count_factors(c) for c in n[1:] if isinstance(c, tuple)] + [0])


def constructor_pairs():
    """Every ordered pair of builder functions nested once: unary(unary(X<1>)), and each binary builder with a composite
    unary child on either side. Always included, so that an interaction between two cooperating builders (e.g. unary minus
    applied to a quotient) is covered in the quick tier as well."""
    out = []
    for u1 in UNARY:
        for u2 in UNARY: out.append(unary(u1, unary(u2, ('X', 1))))
    for b in BINARY:
        for u in UNARY:
            out.append((b, unary(u, ('X', 1)), ('D', 1))); out.append((b, ('D', 1), unary(u, ('V',))))
    return out


# expressions that the statement, the README and the examples spell out explicitly; always included
NAMED = [
    ('commutator', ('sub', ('mul', ('D', 1), ('X', 1)), ('mul', ('X', 1), ('D', 1)))),
    ('hydrogen-like', ('sub', ('add', ('sub', ('neg', ('mul', ('X', 2), ('D', 2))), ('mul', ('cmulL', 'int', ('X', 1)), ('D', 1))), ('cmulL', 'int', ('I',))), ('cmulL', 'int', ('X', 1)))),
    ('harmonic', ('add', ('cmulL', 'T', ('neg', ('D', 2))), ('cmulR', 'T', ('X', 2)))),
    ('generator-op', ('cmulL', 'T', ('subc', 'T', ('X', 1)))),
    ('generator-op2', ('cmulL', 'T', ('csub', 'T', ('X', 1)))),
    ('v-then-d', ('mul', ('D', 1), ('V',))),
    ('d-then-v', ('mul', ('V',), ('D', 1))),
    ('v-squared-shift', ('addc', 'T', ('mul', ('V',), ('V',)))),
    ('x-over-int', ('div', 'int', ('X', 1))),
    ('nested-div', ('div', 'T', ('div', 'int', ('add', ('X', 1), ('D', 1))))),
]


def emit_struct(i, name, n):
    nm = name.replace('"', '')
    return '''struct E%d {
  static constexpr const char *name = "%s";
  static constexpr bool uses_factor = %s;
  static constexpr bool divides_by_c = %s;
  template <class V> static auto make(const Real &c, const V &v) { (void)c; (void)v; return %s; }
  template <class V> static Poly ref(const Poly &p0, const Real &c, const V &v, const std::vector<Real> &g, size_t gi) {
    (void)c; (void)v; (void)g; (void)gi;
    auto f = %s;
    return f(p0);
  }
};
''' % (i, nm, 'true' if uses(n, 'V') else 'false', 'true' if uses_T_div(n) else 'false', lib(n), ref(n))


def main():
    mode, tier, seed, outdir, ntu = sys.argv[1], sys.argv[2], int(sys.argv[3]), sys.argv[4], int(sys.argv[5])
    rnd = random.Random(seed)
    if mode == 'c05lg':
        # large-grid variant: the named expressions and every one-level tree that contains a spline factor
        trees = [(nm, t) for nm, t in NAMED] + [(lib(t), t) for t in level1(LEAVES) if uses(t, 'V')]
        common = 'c05_common.h'
        mode = 'c05'
    elif mode == 'c05':
        trees = [(nm, t) for nm, t in NAMED] + [(lib(t), t) for t in level1(LEAVES)]
        for u in UNARY_INTS:
            for l in (('X', 1), ('D', 1), ('mul', ('D', 1), ('X', 1))): trees.append((lib(unary(u, l)), unary(u, l)))
        have = set(t for _, t in trees)
        for t in constructor_pairs():
            if t not in have: trees.append((lib(t), t)); have.add(t)
        l2 = [t for t in level2() if t not in have]
        if tier == 'quick':
            rnd.shuffle(l2)
            l2 = l2[:int(os.environ.get('C05_L2_QUICK', '160'))]
        trees += [(lib(t), t) for t in l2]
        # deeper nestings (three and four builders deep): a seeded sample, the same on every run with the same seed
        rnd3 = random.Random(1000 + seed)
        deep = []
        want = int(os.environ.get('C05_DEEP', '48' if tier == 'quick' else '240'))
        while len(deep) < want:
            t = random_tree(rnd3, 3 if len(deep) % 3 else 4)
            if t in have or count_factors(t) > 4: continue
            have.add(t); deep.append(t)
        trees += [(lib(t), t) for t in deep]
        common = 'c05_common.h'
        adder = 'add_tree'
    else:
        # operator list for the forms; pairs are formed in the common header
        ops = [('I', ('I',)), ('Dx1', ('D', 1)), ('X1', ('X', 1)), ('Dx2', ('D', 2)), ('X2', ('X', 2)), ('V', ('V',)),
               ('X2Dx1+cX1-3', ('subc', 'int', ('add', ('mul', ('X', 2), ('D', 1)), ('cmulL', 'T', ('X', 1))))),
               ('-Dx2/2', ('div', 'int', ('neg', ('D', 2)))), ('V*Dx1', ('mul', ('V',), ('D', 1))), ('c-X1', ('csub', 'T', ('X', 1)))]
        if mode.endswith('hi') or mode.endswith('lg'):
            pairs = [(0, 0), (1, 2), (2, 1), (3, 4)] if tier == 'quick' else [(0, 0), (1, 2), (2, 1), (3, 4), (4, 3), (1, 1), (5, 0), (0, 5), (6, 1), (7, 2)]
            if mode.endswith('lg'): pairs = [(0, 0), (1, 2), (2, 1), (5, 0), (0, 5), (3, 4)] if tier == 'quick' else pairs + [(8, 9)]
            if mode in ('c07hi', 'c07lg'): ops_sel = ([0, 1, 2, 3, 4] + ([5, 8] if mode.endswith('lg') else [])) if tier == 'quick' else list(range(len(ops)))
            mode = mode[:-2]
        elif tier == 'quick':
            pairs = [(0, 0), (1, 1), (0, 2), (2, 0), (1, 2), (3, 0), (0, 4), (5, 0), (0, 5), (6, 1), (7, 2), (8, 9), (9, 8), (5, 5)]
        else:
            pairs = [(a, b) for a in range(len(ops)) for b in range(len(ops)) if (a + b) % 2 == 0 or a < 4 or b < 4]
        trees = ops
        common = 'c06_common.h' if mode == 'c06' else 'c07_common.h'
    files = []
    if mode == 'c05':
        per = (len(trees) + ntu - 1) // ntu
        for k in range(ntu):
            part = trees[k::ntu]   # strided, so that the (larger) deep trees spread over all translation units
            if not part: continue
            fn = os.path.join(outdir, 'C05%s_gen_%d.cpp' % ('lg' if sys.argv[1] == 'c05lg' else '', k))
            with open(fn, 'w') as f:
                f.write('// generated by gen_exprs.py (%s tier, seed %d): %d operator expression trees\n#include "harness.h"\n#include "gen/%s"\n' % (tier, seed, len(part), common))
                for i, (nm, t) in enumerate(part): f.write(emit_struct(i, nm, t))
                f.write('void hx_cases(std::vector<hx::Case> &cases) {\n')
                for i in range(len(part)): f.write('  add_tree<E%d>(cases);\n' % i)
                f.write('}\n')
            files.append(fn)
    else:
        hi = sys.argv[1].endswith('hi') or sys.argv[1].endswith('lg')
        sfx = sys.argv[1][3:]
        units = [('pair', a, b) for a, b in pairs] if mode == 'c06' else [('op', a, a) for a in (ops_sel if hi else range(len(ops)))] + [('link', a, b) for a, b in pairs]
        per = (len(units) + ntu - 1) // ntu
        for k in range(ntu):
            part = units[k * per:(k + 1) * per]
            if not part: continue
            fn = os.path.join(outdir, '%s%s_gen_%d.cpp' % (mode.upper(), sfx, k))
            with open(fn, 'w') as f:
                f.write('// generated by gen_exprs.py (%s tier)\n#include "harness.h"\n#include "gen/%s"\n' % (tier, common))
                used = sorted(set(x for p in part for x in p[1:]))
                for i in used: f.write(emit_struct(i, ops[i][0], ops[i][1]))
                f.write('void hx_cases(std::vector<hx::Case> &cases) {\n')
                for kind, a, b in part:
                    f.write({'pair': '  add_pair<E%d, E%d>(cases);\n' % (a, b), 'link': '  add_link<E%d, E%d>(cases);\n' % (a, b), 'op': '  add_op<E%d>(cases);\n' % a}[kind])
                f.write('}\n')
            files.append(fn)
    print('\n'.join(files))


if __name__ == '__main__':
    main()
