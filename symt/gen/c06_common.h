// C06: bilinear forms equal the exact integral of the two transformed splines (common part of the generated TUs).
// Real code executed: BilinearForm::BilinearForm/evaluate/operator()/evaluateInterval, deduction guides, ScalarProduct,
// Support::calcIntersection/intervalIndexFromAbsolute/absoluteFromRelative/operator[], all operator transforms involved.
#pragma once
#include <bspline/operators/SplineOperator.h>
using namespace hx;
using namespace bspline::operators;
using namespace bspline::integration;
#ifndef MAXN
#define MAXN 4
#endif
#ifndef MAXO
#define MAXO 3
#endif
#ifndef FO
#define FO 1
#endif
inline Poly pdivs(const Poly &a, const Real &c) {
  Poly r;
  for (auto &x : a) r.push_back(x / c);
  return r;
}
inline std::vector<std::pair<size_t, size_t>> factor_windows(size_t n, bool used) {
  if (!used) return {{0, n}};
#ifdef LARGE
  return windows_sample(n, 5, 11);
#elif defined(ALL_FACTOR_WINDOWS)
  return windows(n);
#else
  std::vector<std::pair<size_t, size_t>> w{{0, n}, {0, 0}};
  if (n >= 3) {
    w.push_back({0, 2});
    w.push_back({1, n});
  }
  return w;
#endif
}
template <class EA, class EB, size_t oa, size_t ob>
void pair_case(size_t n, std::pair<size_t, size_t> wa, std::vector<std::pair<size_t, size_t>> wbs = {}) {
  auto &En = Engine::get();
  if (wbs.empty()) wbs = windows(n);
  auto g = gridpoints(n);
  Grid<Real> grid(g);
  Real c = Real::var("c"), k = Real::var("k");
  if (EA::divides_by_c || EB::divides_by_c) En.assume(sym::ne(c, Real(0)));
  auto a = mkspline<oa>(grid, wa.first, wa.second, "a");
  auto a2 = mkspline<oa>(grid, wa.first, wa.second, "d");
  bool ctl = false;
  for (auto wb : wbs) {
    auto b = mkspline<ob>(grid, wb.first, wb.second, "b");
    for (auto wv : factor_windows(n, EA::uses_factor || EB::uses_factor)) {
      auto v = mkspline<FO>(grid, wv.first, wv.second, "v");
      std::string key = "wb" + W(wb) + ((EA::uses_factor || EB::uses_factor) ? "/wv" + W(wv) : std::string()) + "/";
      Real lib = BilinearForm{EA::make(c, v), EB::make(c, v)}(a, b);
      Real ref(0);
      size_t lo = std::max(wa.first, wb.first), hi = std::min(wa.second, wb.second);
      for (size_t gi = lo; gi + 1 < hi; gi++)
        ref = ref + pintegral(pmul(EA::ref(piece(a, g, gi), c, v, g, gi), EB::ref(piece(b, g, gi), c, v, g, gi)), g[gi], g[gi + 1]);
      En.prove(key + "integral", sym::eq(lib, ref));
      Real swapped = BilinearForm{EB::make(c, v), EA::make(c, v)}.evaluate(b, a);
      En.prove(key + "swap-symmetry", sym::eq(swapped, lib));
      Real lin = BilinearForm{EA::make(c, v), EB::make(c, v)}(k * a + a2, b);
      Real lib2 = BilinearForm{EA::make(c, v), EB::make(c, v)}(a2, b);
      En.prove(key + "linear-in-first", sym::eq(lin, k * lib + lib2));
      if (!ctl && lo + 1 < hi) {
        ctl = true;
        En.control("perturbed-integral", sym::eq(lib, ref + Real(1)));
      }
    }
  }
  // the same spline object in both slots, the two operators built from different scalars and factor splines (operators of one C++
  // type that differ in state only)
  {
    Real c2 = Real::var("c2");
    if (EA::divides_by_c || EB::divides_by_c) En.assume(sym::ne(c2, Real(0)));
    auto v = mkspline<FO>(grid, 0, n, "v"), w = mkspline<FO>(grid, n >= 3 ? 1 : 0, n, "w");
    if constexpr (oa == ob) {
      Real lib = BilinearForm{EA::make(c, v), EB::make(c2, w)}(a, a);
      Real ref(0);
      for (size_t gi = wa.first; gi + 1 < wa.second; gi++)
        ref = ref + pintegral(pmul(EA::ref(piece(a, g, gi), c, v, g, gi), EB::ref(piece(a, g, gi), c2, w, g, gi)), g[gi], g[gi + 1]);
      En.prove("same-object-both-slots/integral", sym::eq(lib, ref));
    }
  }
  // operands with a history: a zero object that has been queried and used in a form, then re-assigned (lower order, copy, +=)
  {
    auto b = mkspline<ob>(grid, 0, n, "b");
    auto v = mkspline<FO>(grid, 0, n, "v");
    for (int how = 0; how < 3; how++) {
      Spline<Real, oa> h = how == 1 ? a * Real(0) : Spline<Real, oa>(grid);
      (void)h.isZero();
      (void)ScalarProduct{}(h, b);
      (void)BilinearForm{EA::make(c, v), EB::make(c, v)}(h, b);
      if (how == 0) { if constexpr (oa > 0) { auto low = mkspline<oa - 1>(grid, wa.first, wa.second, "l"); h = low; } else h = a; }
      if (how == 1) h += a;
      if (how == 2) { h = a; h *= k; }
      Real lib = BilinearForm{EA::make(c, v), EB::make(c, v)}(h, b);
      Real ref(0);
      size_t lo = h.getSupport().getStartIndex(), hi = h.getSupport().getEndIndex();
      for (size_t gi = lo; gi + 1 < hi; gi++)
        ref = ref + pintegral(pmul(EA::ref(piece(h, g, gi), c, v, g, gi), EB::ref(piece(b, g, gi), c, v, g, gi)), g[gi], g[gi + 1]);
      En.prove("history" + std::to_string(how) + "/integral", sym::eq(lib, ref));
      En.prove("history" + std::to_string(how) + "/swap-symmetry", sym::eq(BilinearForm{EB::make(c, v), EA::make(c, v)}(b, h), lib));
    }
  }
  if constexpr (std::is_same_v<decltype(EA::make(c, a)), IdentityOperator> && std::is_same_v<decltype(EB::make(c, a)), IdentityOperator>) {
    // with both operators the identity the form is the scalar product (and the argument-less deduction guide)
    auto b = mkspline<ob>(grid, 0, n, "b");
    En.prove("scalar-product", sym::eq(ScalarProduct{}(a, b), BilinearForm{IdentityOperator{}, IdentityOperator{}}(a, b)));
    En.prove("default-form", sym::eq(BilinearForm{}(a, b), ScalarProduct{}.evaluate(a, b)));
    En.prove("single-operator-guide", sym::eq(BilinearForm{IdentityOperator{}}(a, b), ScalarProduct{}(a, b)));
  }
}
template <class EA, class EB, size_t oa, size_t ob>
void add_pair_o(std::vector<Case> &cases) {
  for (size_t n = 2; n <= MAXN; n++)
    for (auto wa : windows(n))
      cases.push_back({std::string("bilin/") + EA::name + "," + EB::name + "/o" + std::to_string(oa) + "x" + std::to_string(ob) + "/n" + std::to_string(n) + "/wa" + W(wa),
                       [=] { pair_case<EA, EB, oa, ob>(n, wa); }});
  if constexpr (ob > 0)
    add_pair_o<EA, EB, oa, ob - 1>(cases);
  else if constexpr (oa > 0)
    add_pair_o<EA, EB, oa - 1, MAXO>(cases);
}
#ifdef LARGE
// large structural sizes: sampled window pairs of a LARGE-point fixed rational grid (coefficients symbolic)
#ifndef NSAMPLE
#define NSAMPLE 8
#endif
template <class EA, class EB, size_t oa, size_t ob>
void add_pair_large(std::vector<Case> &cases) {
  auto wbs = windows_sample(LARGE, NSAMPLE, 21 + oa);
  for (auto wa : windows_sample(LARGE, NSAMPLE, 22 + ob))
    cases.push_back({std::string("bilin-large/") + EA::name + "," + EB::name + "/o" + std::to_string(oa) + "x" + std::to_string(ob) + "/n" + std::to_string(LARGE) + "/wa" + W(wa),
                     [=] { pair_case<EA, EB, oa, ob>(LARGE, wa, wbs); }});
}
template <class EA, class EB>
void add_pair(std::vector<Case> &cases) {
  add_pair_large<EA, EB, 1, 1>(cases);
  add_pair_large<EA, EB, 2, 1>(cases);
  add_pair_large<EA, EB, 0, 3>(cases);
}
#elif defined(FIXED_GRID)
static constexpr std::array<size_t, 5> HO{5, 6, 7, 8, 10};
template <class EA, class EB, size_t oa, size_t ob>
void add_pair_one(std::vector<Case> &cases) {
  for (size_t n = 2; n <= MAXN; n++)
    for (auto wa : windows(n, false))
      cases.push_back({std::string("bilin-high/") + EA::name + "," + EB::name + "/o" + std::to_string(oa) + "x" + std::to_string(ob) + "/n" + std::to_string(n) + "/wa" + W(wa),
                       [=] { pair_case<EA, EB, oa, ob>(n, wa); }});
}
template <class EA, class EB, size_t... I>
void add_pair_hi(std::vector<Case> &cases, std::index_sequence<I...>) {
  (add_pair_one<EA, EB, HO[I / HO.size()], HO[I % HO.size()]>(cases), ...);
}
template <class EA, class EB, size_t oa, size_t ob>
void add_pair_vhi(std::vector<Case> &cases) {
  cases.push_back({std::string("bilin-very-high/") + EA::name + "," + EB::name + "/o" + std::to_string(oa) + "x" + std::to_string(ob) + "/n2/wa0-2", [=] { pair_case<EA, EB, oa, ob>(2, {0, 2}); }});
}
template <class EA, class EB>
void add_pair(std::vector<Case> &cases) {
  add_pair_hi<EA, EB>(cases, std::make_index_sequence<HO.size() * HO.size()>{});
  // kernels with 22..35 coefficients of the product polynomial
  add_pair_vhi<EA, EB, 11, 11>(cases);
  add_pair_vhi<EA, EB, 12, 12>(cases);
  add_pair_vhi<EA, EB, 13, 11>(cases);
  add_pair_vhi<EA, EB, 9, 16>(cases);
  add_pair_vhi<EA, EB, 16, 16>(cases);
}
#else
template <class EA, class EB>
void add_pair(std::vector<Case> &cases) {
  add_pair_o<EA, EB, MAXO, MAXO>(cases);
}
#endif
