// C05: operator expressions act as the differential expression they spell (common part of the generated TUs).
// Real code executed: OperatorProduct/OperatorSum/ScalarMultiplication::transform and their builder functions
// (operator*,+,-,/ and unary minus in CompoundOperators.h / ScalarOperators.h), SplineOperator::transform,
// Derivative/Position/Identity::transform, transformSpline, operator*(Operator,Spline).
#pragma once
#include <bspline/operators/SplineOperator.h>
using namespace hx;
using namespace bspline::operators;
#ifndef MAXN
#define MAXN 4
#endif
#ifndef MAXO
#define MAXO 2
#endif
#ifndef FO
#define FO 1
#endif
inline Poly pdivs(const Poly &a, const Real &c) {
  Poly r;
  for (auto &x : a) r.push_back(x / c);
  return r;
}
template <class E, size_t o, size_t fo>
void tree_case(size_t n) {
  auto &En = Engine::get();
  auto g = gridpoints(n);   // symbolic points; the fixed rational grid in the large variant (-DFIXED_GRID -DLARGE)
  Grid<Real> grid(g);
  Real x = Real::var("x"), c = Real::var("c");
  if (E::divides_by_c) En.assume(sym::ne(c, Real(0)));
  bool ctl = false;
  std::vector<std::pair<size_t, size_t>> one{{0, n}};
#ifdef LARGE
  auto all_ws = windows_sample(n, 8, 71), all_wv = windows_sample(n, 4, 72);
#else
  auto all_ws = windows(n), all_wv = windows(n);
#endif
  for (auto ws : all_ws) {
    auto s = mkspline<o>(grid, ws.first, ws.second, "s");
    for (auto wv : (E::uses_factor ? all_wv : one)) {
      auto v = mkspline<fo>(grid, wv.first, wv.second, "v");
      // the operator is built from NAMED scalar and spline objects which are overwritten before it is applied: an operator is a value,
      // it must act with the operands it was built from
      Real cvar = c;
      auto vvar = v;
      auto op = E::make(cvar, vvar);
      cvar = cvar + Real(1);
      vvar = vvar * Real(2);
      auto r = op * s;
      std::string k = "ws" + W(ws) + (E::uses_factor ? "/wv" + W(wv) : std::string()) + "/";
      if (!shape_ok(r, n)) En.fail(k + "shape", "structure", "result shape inconsistent");
      for (size_t gi = 0; gi + 1 < n; gi++) {
        Poly expect = E::ref(piece(s, g, gi), c, v, g, gi);
        En.prove(k + "iv" + std::to_string(gi), sym::eq(piece_at(r, g, gi, x), peval(expect, x)));
        if (!ctl && ws.second > ws.first + 1 && gi == ws.first) {
          ctl = true;
          En.control("perturbed-result", sym::eq(piece_at(r, g, gi, x), peval(expect, x) + Real(1)));
        }
      }
    }
  }
}
template <class E, size_t o>
void add_tree_o(std::vector<Case> &cases) {
  for (size_t n = 2; n <= MAXN; n++) {
    cases.push_back({std::string("expr/") + E::name + "/o" + std::to_string(o) + "/f" + std::to_string(FO) + "/n" + std::to_string(n), [=] { tree_case<E, o, FO>(n); }});
#ifdef FO2
    if (E::uses_factor)
      cases.push_back({std::string("expr/") + E::name + "/o" + std::to_string(o) + "/f" + std::to_string(FO2) + "/n" + std::to_string(n), [=] { tree_case<E, o, FO2>(n); }});
#endif
  }
  if constexpr (o > 0) add_tree_o<E, o - 1>(cases);
}
#ifdef LARGE
template <class E>
void add_tree(std::vector<Case> &cases) {
  cases.push_back({std::string("expr-large/") + E::name + "/o1/f" + std::to_string(FO) + "/n" + std::to_string(LARGE), [=] { tree_case<E, 1, FO>(LARGE); }});
  cases.push_back({std::string("expr-large/") + E::name + "/o2/f" + std::to_string(FO) + "/n" + std::to_string(LARGE), [=] { tree_case<E, 2, FO>(LARGE); }});
}
#else
template <class E>
void add_tree(std::vector<Case> &cases) {
  add_tree_o<E, MAXO>(cases);
}
#endif
