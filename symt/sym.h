// Engine A ("symT"): a scalar type whose arithmetic builds SMT terms, so that running the *real*
// bspline templates with T = sym::Real is a symbolic execution of them (see DESIGN.md 3.1).
//
// Two builds of the same harness source:
//   default           sym::Real wraps z3 real terms (numerator + multiset of atomic denominator
//                     factors), comparisons fork (DFS over a decision trail, re-execution),
//                     obligations are QF_NRA queries decided by a fresh z3 solver each.
//   -DSYMT_CONCRETE   sym::Real wraps an exact rational (boost cpp_rational); variables take their
//                     values from a replay model; comparisons are ordinary; obligations are
//                     evaluated. Used to replay every counterexample against the real code with
//                     no solver and none of the symbolic encoding involved.
#pragma once
#include <algorithm>
#include <chrono>
#include <cstdio>
#include <cstdlib>
#include <functional>
#include <limits>
#include <deque>
#include <map>
#include <set>
#include <sstream>
#include <stdexcept>
#include <string>
#include <type_traits>
#include <vector>
#include <unistd.h>
#ifndef SYMT_CONCRETE
#include <z3++.h>
#else
#include <boost/multiprecision/cpp_int.hpp>
#endif

namespace sym {
#ifdef SYMT_TRIVIAL
#define Real RealImpl  // the number implementation; sym::Real is then the trivially copyable handle defined at the end of this namespace
#endif

// ------------------------------------------------------------------ bookkeeping shared by both builds
struct Violation {
  std::string key, kind, detail, trail;
  std::map<std::string, std::string> model;
};
struct AbortCase : std::runtime_error {
  using std::runtime_error::runtime_error;
};
struct Stats {
  unsigned long paths = 0, obligations = 0, discharged = 0, feas_queries = 0, cache_hits = 0, forks = 0;
  unsigned long controls = 0, controls_sat = 0, witnesses = 0, witnesses_sat = 0, divisions_checked = 0;
  double solver_s = 0, slowest_s = 0;
  std::set<unsigned> nontrivial;  // structural hashes of non-trivial obligations
  std::set<unsigned> branch_atoms;  // structural hashes of branch conditions on which the solver found both outcomes feasible
  std::vector<Violation> violations;
  std::vector<std::string> inconclusive, notes, samples, reproduced;
};
inline Stats &stats() {
  static Stats s;
  return s;
}
inline std::string jesc(const std::string &s) {
  std::string o;
  for (char c : s) {
    if (c == '"' || c == '\\') {
      o += '\\';
      o += c;
    } else if (c == '\n')
      o += "\\n";
    else if ((unsigned char)c < 0x20)
      o += ' ';
    else
      o += c;
  }
  return o;
}
inline double now_s() {
  return std::chrono::duration<double>(std::chrono::steady_clock::now().time_since_epoch()).count();
}
inline unsigned &timeout_ms() {
  static unsigned t = getenv("SYMT_TIMEOUT_MS") ? atoi(getenv("SYMT_TIMEOUT_MS")) : 60000;
  return t;
}

#ifndef SYMT_CONCRETE
// =================================================================== symbolic build
inline z3::context &ctx() {
  static z3::context c;
  return c;
}

class Bool {
 public:
  z3::expr e;
  explicit Bool(z3::expr x) : e(x) {}
  static Bool T() { return Bool(ctx().bool_val(true)); }
  static Bool F() { return Bool(ctx().bool_val(false)); }
  static Bool of(bool b) { return Bool(ctx().bool_val(b)); }
  Bool operator&&(const Bool &o) const { return Bool(e && o.e); }
  Bool operator||(const Bool &o) const { return Bool(e || o.e); }
  Bool operator!() const { return Bool(!e); }
};
inline Bool implies(const Bool &a, const Bool &b) { return Bool(z3::implies(a.e, b.e)); }
inline Bool iff(const Bool &a, const Bool &b) { return Bool(a.e == b.e); }

class Engine {
 public:
  std::vector<z3::expr> pc;
  std::vector<bool> trail, flipped;
  size_t pos = 0;
  std::vector<std::pair<std::string, z3::expr>> vars;
  std::map<unsigned, bool> decided;  // atom id -> value on this path (monotone in pc)
  std::vector<z3::expr> keepalive;   // every term whose id is used as a key stays alive (ids are never reused)
  // feasibility results shared between the re-executions of one case: key = (hash of the pc sequence, atom id)
  struct FKey {
    unsigned long long h1, h2;
    unsigned atom;
    bool operator<(const FKey &o) const { return h1 != o.h1 ? h1 < o.h1 : (h2 != o.h2 ? h2 < o.h2 : atom < o.atom); }
  };
  std::map<FKey, std::pair<bool, bool>> feas_cache;
  unsigned long long h1 = 0x9e3779b97f4a7c15ULL, h2 = 0xc2b2ae3d27d4eb4fULL;
  void push_pc(const z3::expr &c) {
    pc.push_back(c);
    keepalive.push_back(c);
    h1 = (h1 ^ c.id()) * 0x100000001b3ULL + 0x632be59bd9b4e019ULL;
    h2 = (h2 + c.id() * 0x9e3779b97f4a7c15ULL) ^ (h2 >> 29) ^ (h2 << 17);
    decided.clear();
  }
  const char *logic = "QF_NRA";
  unsigned long uninit_counter = 0;
  static Engine &get() {
    static Engine e;
    return e;
  }
  std::string trail_str() const {
    std::string s;
    for (size_t i = 0; i < pos && i < trail.size(); i++) s += trail[i] ? '1' : '0';
    return s;
  }
  z3::check_result check(const z3::expr &extra, z3::model *m = nullptr) {
    double t0 = now_s();
    z3::solver s = logic ? z3::solver(ctx(), logic) : z3::solver(ctx());
    z3::params p(ctx());
    p.set("timeout", timeout_ms());
    s.set(p);
    for (auto &c : pc) s.add(c);
    s.add(extra);
    z3::check_result r;
    try {
      r = s.check();
      if (r == z3::sat && m) *m = s.get_model();
    } catch (z3::exception &ex) {
      r = z3::unknown;
    }
    double dt = now_s() - t0;
    stats().solver_s += dt;
    if (dt > stats().slowest_s) stats().slowest_s = dt;
    return r;
  }
  bool feasible(const z3::expr &e) {
    stats().feas_queries++;
    auto r = check(e);
    if (r == z3::unknown) {
      stats().inconclusive.push_back("feasibility query unknown/timeout");
      throw AbortCase("feasibility unknown");
    }
    return r == z3::sat;
  }
  bool decide(const z3::expr &cond) {
    z3::expr s = cond.simplify();
    if (s.is_true()) return true;
    if (s.is_false()) return false;
    auto it = decided.find(s.id());
    if (it != decided.end()) {
      stats().cache_hits++;
      return it->second;
    }
    keepalive.push_back(s);
    bool ft, ff;
    FKey fk{h1, h2, s.id()};
    auto fc = feas_cache.find(fk);
    if (fc != feas_cache.end()) {
      ft = fc->second.first;
      ff = fc->second.second;
      stats().cache_hits++;
    } else {
      ft = feasible(s);
      ff = feasible(!s);
      feas_cache[fk] = {ft, ff};
    }
    bool d;
    if (ft && !ff)
      d = true;
    else if (ff && !ft)
      d = false;
    else if (!ft && !ff) {
      stats().inconclusive.push_back("path condition became infeasible");
      throw AbortCase("infeasible path");
    } else {
      if (pos < trail.size())
        d = trail[pos];
      else {
        d = true;
        trail.push_back(true);
        flipped.push_back(false);
        stats().forks++;
      }
      pos++;
      stats().branch_atoms.insert(s.hash());
      push_pc(d ? s : !s);
    }
    decided[s.id()] = d;
    return d;
  }
  void assume(const Bool &b) { push_pc(b.e); }
  bool next_path() {
    while (!trail.empty() && flipped.back()) {
      trail.pop_back();
      flipped.pop_back();
    }
    if (trail.empty()) return false;
    trail.back() = !trail.back();
    flipped.back() = true;
    return true;
  }
  void reset_run() {
    pos = 0;
    pc.clear();
    decided.clear();
    vars.clear();
    uninit_counter = 0;
    h1 = 0x9e3779b97f4a7c15ULL;
    h2 = 0xc2b2ae3d27d4eb4fULL;
  }
  void reset_all() {
    reset_run();
    trail.clear();
    flipped.clear();
  }
  std::map<std::string, std::string> model_map(const z3::model &m) {
    std::map<std::string, std::string> r;
    for (auto &v : vars) {
      std::string s;
      if (v.second.get_sort().sort_kind() == Z3_FLOATING_POINT_SORT) {
        z3::expr bits = m.eval(z3::expr(ctx(), Z3_mk_fpa_to_ieee_bv(ctx(), v.second)), true).simplify();
        std::ostringstream os;
        z3::expr isnan = m.eval(z3::expr(ctx(), Z3_mk_fpa_is_nan(ctx(), v.second)), true).simplify();
        // to_ieee_bv of NaN is unspecified in the FP theory: use the canonical quiet NaN
        os << "bits:" << (isnan.is_true() ? 0x7ff8000000000000ULL : bits.get_numeral_uint64());
        z3::expr fv = m.eval(v.second, true);
        os << "(" << fv << ")";
        std::string t = os.str();
        for (auto &ch : t)
          if (ch == ' ') ch = '_';
        r[v.first] = t;
        continue;
      }
      z3::expr val = m.eval(v.second, true);
      if (val.is_numeral()) {
        s = val.numerator().get_decimal_string(0);
        std::string dn = val.denominator().get_decimal_string(0);
        if (dn != "1") s += "/" + dn;
      }
      else if (val.is_algebraic())
        s = val.get_decimal_string(40);
      else {
        std::ostringstream os;
        os << val;
        s = os.str();
      }
      r[v.first] = s;
    }
    return r;
  }
  void violation(const std::string &key, const std::string &kind, const std::string &detail, const z3::model *m) {
    Violation v;
    v.key = key;
    v.kind = kind;
    v.detail = detail;
    v.trail = trail_str();
    if (m) v.model = model_map(*m);
    stats().violations.push_back(v);
  }
  // Obligation: pc /\ not claim must be unsat.
  bool prove(const std::string &key, const Bool &claim) {
    stats().obligations++;
    z3::expr neg = (!claim.e).simplify();
    if (neg.is_false()) {
      stats().discharged++;
      return true;
    }
    stats().nontrivial.insert(neg.hash());
    if (stats().samples.size() < 2) {
      std::ostringstream os;
      os << "key=" << key << " pc=[";
      for (auto &c : pc) os << c << "; ";
      os << "] negated-claim=" << neg;
      std::string s = os.str();
      if (s.size() > 1500) s = s.substr(0, 1500) + "...";
      stats().samples.push_back(s);
    }
    z3::model m(ctx());
    auto r = check(neg, &m);
    if (r == z3::unsat) {
      stats().discharged++;
      dump_for_second_solver(neg);
      return true;
    }
    if (r == z3::unknown) {
      stats().inconclusive.push_back("obligation " + key + " unknown/timeout");
      return false;
    }
    violation(key, "obligation", "negated claim satisfiable", &m);
    return false;
  }
  // thorough tier: a sample of discharged non-trivial obligations is written as SMT-LIB2 and re-decided by other solvers
  unsigned dumped = 0;
  void dump_for_second_solver(const z3::expr &neg) {
    const char *dir = getenv("SYMT_DUMP_DIR");
    if (!dir || dumped >= 2) return;
    dumped++;
    z3::solver s(ctx());
    for (auto &c : pc) s.add(c);
    s.add(neg);
    char name[512];
    snprintf(name, sizeof name, "%s/ob_%d_%u_%u.smt2", dir, (int)getpid(), neg.hash(), dumped);
    FILE *f = fopen(name, "w");
    if (!f) return;
    std::string t = "(set-logic ALL)\n" + s.to_smt2();
    fwrite(t.data(), 1, t.size(), f);
    fclose(f);
  }
  // Negative control: pc /\ not claim must be SAT (the harness can tell a wrong answer from a right one).
  bool control(const std::string &key, const Bool &wrong_claim) {
    stats().controls++;
    auto r = check((!wrong_claim.e).simplify());
    if (r == z3::sat) {
      stats().controls_sat++;
      return true;
    }
    stats().inconclusive.push_back("negative control " + key + " not satisfiable (r=" + (r == z3::unsat ? "unsat" : "unknown") + ")");
    return false;
  }
  // Reachability witness: pc /\ cond must be SAT.
  bool witness(const std::string &key, const Bool &cond) {
    stats().witnesses++;
    auto r = check(cond.e);
    if (r == z3::sat) {
      stats().witnesses_sat++;
      return true;
    }
    stats().inconclusive.push_back("witness " + key + " not satisfiable");
    return false;
  }
  // Is cond satisfiable together with pc?
  bool sat(const Bool &cond) {
    auto r = check(cond.e);
    if (r == z3::unknown) {
      stats().inconclusive.push_back("satisfiability query unknown/timeout");
      throw AbortCase("sat unknown");
    }
    return r == z3::sat;
  }
  void fail(const std::string &key, const std::string &kind, const std::string &detail) {
    // violation that is not a formula: wrong exception, wrong structure, crash ...; attach a model of pc
    z3::model m(ctx());
    auto r = check(ctx().bool_val(true), &m);
    violation(key, kind, detail, r == z3::sat ? &m : nullptr);
  }
};

// ---- factored denominators
struct Factors {
  std::vector<z3::expr> tab;
  std::map<unsigned, unsigned> idx;
  static Factors &get() {
    static Factors f;
    return f;
  }
  unsigned id(const z3::expr &e) {
    auto it = idx.find(e.id());
    if (it != idx.end()) return it->second;
    tab.push_back(e);
    idx[e.id()] = tab.size() - 1;
    return tab.size() - 1;
  }
};
using FacMS = std::map<unsigned, unsigned>;  // factor id -> multiplicity
inline z3::expr facprod(const FacMS &m) {
  z3::expr r = ctx().real_val(1);
  bool first = true;
  for (auto &kv : m)
    for (unsigned k = 0; k < kv.second; k++) {
      if (first) {
        r = Factors::get().tab[kv.first];
        first = false;
      } else
        r = r * Factors::get().tab[kv.first];
    }
  return r;
}
inline FacMS lcm(const FacMS &a, const FacMS &b) {
  FacMS r = a;
  for (auto &kv : b) {
    auto &x = r[kv.first];
    if (x < kv.second) x = kv.second;
  }
  return r;
}
inline FacMS minus(const FacMS &a, const FacMS &b) {
  FacMS r;
  for (auto &kv : a) {
    auto it = b.find(kv.first);
    unsigned m = it == b.end() ? 0 : it->second;
    if (kv.second > m) r[kv.first] = kv.second - m;
  }
  return r;
}
inline z3::expr mulfac(const z3::expr &n, const FacMS &m) {
  if (m.empty()) return n;
  return n * facprod(m);
}

class Real {
  z3::expr n;
  FacMS d;

 public:
#ifdef SYMT_POISON_DEFAULT
  // The documented requirements promise default construction, not that it yields zero: a default-constructed value
  // is an arbitrary number (fresh unconstrained symbol), so any result that depends on it cannot be proved.
  Real() : n(ctx().real_val(0)) { *this = var("uninit" + std::to_string(Engine::get().uninit_counter++)); }
#else
  Real() : n(ctx().real_val(0)) {}
#endif
  // -DSYMT_IMPLICIT_INT: the conversion from integral types is implicit, as it is for the built-in floating types - used by
  // the harness that passes integer literals where the API takes `const T &` (a / 2, a *= 3, s(1))
  template <typename I, std::enable_if_t<std::is_integral_v<I>, bool> = true>
#ifndef SYMT_IMPLICIT_INT
  explicit
#endif
  Real(I i) : n(ctx().real_val(std::to_string((long long)i).c_str())) {}
  Real(z3::expr nn, FacMS dd) : n(nn), d(std::move(dd)) {}
  // copy only: a moved-from scalar keeps its value (as a built-in would); z3::expr's own move would leave a null term
  Real(const Real &) = default;
  Real &operator=(const Real &) = default;
#ifdef SYMT_POISON_MOVED
  // C19 archetype: the requirements promise copy construction, nothing about the state of a moved-from scalar (for a heap-backed
  // number type it is unspecified): the source of a move becomes an arbitrary number (fresh unconstrained symbol), so any result
  // that depends on a moved-from scalar cannot be proved. Self-move keeps the value.
  void poison_() {
    Real t = var("moved" + std::to_string(Engine::get().uninit_counter++));
    n = t.n;
    d = t.d;
  }
  Real(Real &&o) noexcept(false) : n(o.n), d(o.d) { o.poison_(); }
  Real &operator=(Real &&o) noexcept(false) {
    if (this != &o) {
      n = o.n;
      d = o.d;
      o.poison_();
    }
    return *this;
  }
#endif
  static Real var(const std::string &nm) {
    z3::expr v = ctx().real_const(nm.c_str());
    auto &E = Engine::get();
    bool known = false;
    for (auto &p : E.vars)
      if (p.first == nm) known = true;
    if (!known) E.vars.emplace_back(nm, v);
    return Real(v, {});
  }
  static Real frac(long long a, long long b) {
    return Real(ctx().real_val((std::to_string(a) + "/" + std::to_string(b)).c_str()), {});
  }
  const z3::expr &num_() const { return n; }
  const FacMS &den_() const { return d; }
  Real operator+(const Real &o) const {
    if (d == o.d) return Real(n + o.n, d);
    FacMS L = lcm(d, o.d);
    return Real(mulfac(n, minus(L, d)) + mulfac(o.n, minus(L, o.d)), L);
  }
  Real operator-(const Real &o) const {
    if (d == o.d) return Real(n - o.n, d);
    FacMS L = lcm(d, o.d);
    return Real(mulfac(n, minus(L, d)) - mulfac(o.n, minus(L, o.d)), L);
  }
  Real operator*(const Real &o) const {
    FacMS r = d;
    for (auto &kv : o.d) r[kv.first] += kv.second;
    return Real((n * o.n).simplify(), r);
  }
  Real operator/(const Real &o) const {
    z3::expr on = o.n.simplify();
    auto &E = Engine::get();
    stats().divisions_checked++;
    if (on.is_numeral()) {
      if (on.is_numeral() && Z3_get_numeral_string(ctx(), on) == std::string("0")) {
        E.fail("division-by-zero", "divzero", "division by the constant zero");
        throw AbortCase("division by constant zero");
      }
      z3::expr nn = mulfac(n, o.d);
      return Real((nn / on).simplify(), d);
    }
    // divisor must be non-zero on every model of the path condition
    {
      z3::model m(ctx());
      stats().feas_queries++;
      auto r = E.check(on == 0, &m);
      if (r == z3::sat) {
        std::ostringstream os;
        os << "divisor can be zero: " << on;
        E.violation("division-by-zero", "divzero", os.str().substr(0, 300), &m);
        E.push_pc(on != 0);  // continue on the remaining inputs
      } else if (r == z3::unknown) {
        stats().inconclusive.push_back("division check unknown");
        throw AbortCase("division check unknown");
      }
    }
    z3::expr nn = mulfac(n, o.d);
    FacMS r = d;
    r[Factors::get().id(on)] += 1;
    return Real(nn, r);
  }
  Real operator-() const { return Real(-n, d); }
  Real &operator+=(const Real &o) { return *this = *this + o; }
  Real &operator-=(const Real &o) { return *this = *this - o; }
  Real &operator*=(const Real &o) { return *this = *this * o; }
  Real &operator/=(const Real &o) { return *this = *this / o; }
  z3::expr diffnum(const Real &o) const {
    if (d == o.d) return n - o.n;
    FacMS L = lcm(d, o.d);
    return mulfac(n, minus(L, d)) - mulfac(o.n, minus(L, o.d));
  }
  z3::expr diffsign(const Real &o) const {
    FacMS L = lcm(d, o.d);
    FacMS odd;
    for (auto &kv : L)
      if (kv.second % 2) odd[kv.first] = 1;
    return mulfac(diffnum(o), odd);
  }
  bool operator<(const Real &o) const { return Engine::get().decide(diffsign(o) < 0); }
  bool operator<=(const Real &o) const { return Engine::get().decide(diffsign(o) <= 0); }
  bool operator>(const Real &o) const { return Engine::get().decide(diffsign(o) > 0); }
  bool operator>=(const Real &o) const { return Engine::get().decide(diffsign(o) >= 0); }
  bool operator==(const Real &o) const { return Engine::get().decide(diffnum(o) == 0); }
  bool operator!=(const Real &o) const { return Engine::get().decide(diffnum(o) != 0); }
  std::string str() const {
    std::ostringstream os;
    os << n.simplify();
    if (!d.empty()) os << " / (" << facprod(d) << ")";
    return os.str();
  }
};
// formula builders (do not fork)
inline Bool lt(const Real &a, const Real &b) { return Bool(a.diffsign(b) < 0); }
inline Bool le(const Real &a, const Real &b) { return Bool(a.diffsign(b) <= 0); }
inline Bool gt(const Real &a, const Real &b) { return Bool(a.diffsign(b) > 0); }
inline Bool ge(const Real &a, const Real &b) { return Bool(a.diffsign(b) >= 0); }
inline Bool eq(const Real &a, const Real &b) { return Bool(a.diffnum(b) == 0); }
inline Bool ne(const Real &a, const Real &b) { return Bool(a.diffnum(b) != 0); }
// the positive square root of `square` as a fresh symbol constrained by its defining equation
inline Real algebraic(const std::string &name, const Real &square) {
  Real v = Real::var(name);
  auto &E = Engine::get();
  E.assume(eq(v * v, square));
  E.assume(gt(v, Real(0)));
  return v;
}

#else
// =================================================================== concrete (replay) build
using Q = boost::multiprecision::cpp_rational;
class Bool {
 public:
  bool e;
  explicit Bool(bool x) : e(x) {}
  static Bool T() { return Bool(true); }
  static Bool F() { return Bool(false); }
  static Bool of(bool b) { return Bool(b); }
  Bool operator&&(const Bool &o) const { return Bool(e && o.e); }
  Bool operator||(const Bool &o) const { return Bool(e || o.e); }
  Bool operator!() const { return Bool(!e); }
};
inline Bool implies(const Bool &a, const Bool &b) { return Bool(!a.e || b.e); }
inline Bool iff(const Bool &a, const Bool &b) { return Bool(a.e == b.e); }

class Engine {
 public:
  std::map<std::string, Q> model;
  std::map<std::string, unsigned long long> fmodel;  // IEEE bit patterns for sym::F64 variables
  const char *logic = nullptr;
  unsigned long uninit_counter = 0;
  bool assumptions_ok = true;
  static Engine &get() {
    static Engine e;
    return e;
  }
  void assume(const Bool &b) {
    if (!b.e) {
      assumptions_ok = false;
      stats().notes.push_back("replay model violates an assumption");
      throw AbortCase("assumption violated by replay model");
    }
  }
  bool next_path() { return false; }
  void reset_run() {}
  void reset_all() {}
  std::string trail_str() const { return ""; }
  bool prove(const std::string &key, const Bool &claim) {
    stats().obligations++;
    if (claim.e) {
      stats().discharged++;
      return true;
    }
    stats().reproduced.push_back(key);
    return false;
  }
  bool control(const std::string &, const Bool &) { return true; }
  bool witness(const std::string &, const Bool &) { return true; }
  bool sat(const Bool &cond) { return cond.e; }
  void fail(const std::string &key, const std::string &, const std::string &) { stats().reproduced.push_back(key); }
};
inline Q parse_q(const std::string &s0) {
  std::string s = s0;
  // forms: "a/b", "-a/b", "123", "1.5", "1.25?" (truncated algebraic)
  if (!s.empty() && s.back() == '?') s.pop_back();
  auto slash = s.find('/');
  if (slash != std::string::npos) return Q(boost::multiprecision::cpp_int(s.substr(0, slash)), boost::multiprecision::cpp_int(s.substr(slash + 1)));
  auto dot = s.find('.');
  if (dot == std::string::npos) return Q(boost::multiprecision::cpp_int(s));
  std::string ip = s.substr(0, dot), fp = s.substr(dot + 1);
  bool neg = !ip.empty() && ip[0] == '-';
  boost::multiprecision::cpp_int den = 1;
  for (size_t i = 0; i < fp.size(); i++) den *= 10;
  std::string digits = (neg ? ip.substr(1) : ip) + fp;
  while (digits.size() > 1 && digits[0] == '0') digits.erase(0, 1);  // a leading 0 would be read as octal
  Q q(boost::multiprecision::cpp_int(digits), den);
  return neg ? Q(-q) : q;
}
// Exact numbers of the replay build: elements of a tower Q(g_1)...(g_k) of real quadratic extensions, g_i > 0,
// g_i^2 = sq_i in Q(g_1..g_{i-1}). k = 0 (plain rationals) unless a harness asks for algebraic numbers (Gauss nodes).
// An element is the coefficient vector (size 2^k) of a multilinear polynomial in the generators; generator i is bit i.
// Representation is unique (so == is coefficient-wise) provided no g_i lies in the field below it - true for the
// Gauss-Legendre nodes this is used for.
using V = std::vector<Q>;
struct Tower {
  std::vector<std::string> names;
  std::vector<V> squares;
  static Tower &get() {
    static Tower t;
    return t;
  }
  size_t K() const { return names.size(); }
};
inline V vpad(V x, size_t L) {
  x.resize(size_t(1) << L, Q(0));
  return x;
}
inline V vadd(const V &x, const V &y) {
  V r(std::max(x.size(), y.size()), Q(0));
  for (size_t i = 0; i < x.size(); i++) r[i] += x[i];
  for (size_t i = 0; i < y.size(); i++) r[i] += y[i];
  return r;
}
inline V vneg(V x) {
  for (auto &c : x) c = -c;
  return x;
}
inline V vmul(const V &x, const V &y, size_t L) {
  if (L == 0) return V{x[0] * y[0]};
  size_t h = size_t(1) << (L - 1);
  V x0(x.begin(), x.begin() + h), x1(x.begin() + h, x.end()), y0(y.begin(), y.begin() + h), y1(y.begin() + h, y.end());
  V sq = vpad(Tower::get().squares[L - 1], L - 1);
  V r0 = vadd(vmul(x0, y0, L - 1), vmul(vmul(x1, y1, L - 1), sq, L - 1));
  V r1 = vadd(vmul(x0, y1, L - 1), vmul(x1, y0, L - 1));
  r0.insert(r0.end(), r1.begin(), r1.end());
  return r0;
}
inline int vsign(const V &x, size_t L) {
  if (L == 0) return x[0] > 0 ? 1 : (x[0] < 0 ? -1 : 0);
  size_t h = size_t(1) << (L - 1);
  V x0(x.begin(), x.begin() + h), x1(x.begin() + h, x.end());
  int s0 = vsign(x0, L - 1), s1 = vsign(x1, L - 1);
  if (s1 == 0) return s0;
  if (s0 == 0 || s0 == s1) return s1;
  V sq = vpad(Tower::get().squares[L - 1], L - 1);
  V t = vadd(vmul(x0, x0, L - 1), vneg(vmul(vmul(x1, x1, L - 1), sq, L - 1)));
  return s0 * vsign(t, L - 1);
}
inline V vinv(const V &x, size_t L) {
  if (L == 0) return V{Q(1) / x[0]};
  size_t h = size_t(1) << (L - 1);
  V x0(x.begin(), x.begin() + h), x1(x.begin() + h, x.end());
  V sq = vpad(Tower::get().squares[L - 1], L - 1);
  V norm = vadd(vmul(x0, x0, L - 1), vneg(vmul(vmul(x1, x1, L - 1), sq, L - 1)));
  V ni = vinv(norm, L - 1);
  V r0 = vmul(x0, ni, L - 1), r1 = vmul(vneg(x1), ni, L - 1);
  r0.insert(r0.end(), r1.begin(), r1.end());
  return r0;
}
class Real {
  V v;
  static size_t K() { return Tower::get().K(); }

 public:
#ifdef SYMT_POISON_DEFAULT
  Real() : v{Q(0)} { *this = var("uninit" + std::to_string(Engine::get().uninit_counter++)); }
#else
  Real() : v{Q(0)} {}
#endif
  template <typename I, std::enable_if_t<std::is_integral_v<I>, bool> = true>
#ifndef SYMT_IMPLICIT_INT
  explicit
#endif
  Real(I i) : v{Q((long long)i)} {}
  struct FromQ {};
  Real(FromQ, Q q) : v{std::move(q)} {}
  struct FromV {};
  Real(FromV, V x) : v(std::move(x)) {}
  Real(const Real &) = default;  // copy only, like the symbolic build
  Real &operator=(const Real &) = default;
#ifdef SYMT_POISON_MOVED
  void poison_() {
    Real t = var("moved" + std::to_string(Engine::get().uninit_counter++));
    v = t.v;
  }
  Real(Real &&o) noexcept(false) : v(o.v) { o.poison_(); }
  Real &operator=(Real &&o) noexcept(false) {
    if (this != &o) {
      v = o.v;
      o.poison_();
    }
    return *this;
  }
#endif
  static Real var(const std::string &nm) {
    auto &m = Engine::get().model;
    auto it = m.find(nm);
    return Real(FromQ{}, it == m.end() ? Q(0) : it->second);
  }
  static Real frac(long long a, long long b) { return Real(FromQ{}, Q(a, b)); }
  V full() const { return vpad(v, K()); }
  int sign() const { return vsign(full(), K()); }
  Real operator+(const Real &o) const { return Real(FromV{}, vadd(v, o.v)); }
  Real operator-(const Real &o) const { return Real(FromV{}, vadd(v, vneg(o.v))); }
  Real operator*(const Real &o) const { return Real(FromV{}, vmul(full(), o.full(), K())); }
  Real operator/(const Real &o) const {
    if (o.sign() == 0) {
      stats().reproduced.push_back("division-by-zero");
      throw AbortCase("division by zero in concrete replay");
    }
    return Real(FromV{}, vmul(full(), vinv(o.full(), K()), K()));
  }
  Real operator-() const { return Real(FromV{}, vneg(v)); }
  Real &operator+=(const Real &o) { return *this = *this + o; }
  Real &operator-=(const Real &o) { return *this = *this - o; }
  Real &operator*=(const Real &o) { return *this = *this * o; }
  Real &operator/=(const Real &o) { return *this = *this / o; }
  bool operator<(const Real &o) const { return (*this - o).sign() < 0; }
  bool operator<=(const Real &o) const { return (*this - o).sign() <= 0; }
  bool operator>(const Real &o) const { return (*this - o).sign() > 0; }
  bool operator>=(const Real &o) const { return (*this - o).sign() >= 0; }
  bool operator==(const Real &o) const { return (*this - o).sign() == 0; }
  bool operator!=(const Real &o) const { return (*this - o).sign() != 0; }
  std::string str() const {
    std::string r;
    for (auto &c : v) r += c.str() + " ";
    return r;
  }
};
inline Bool lt(const Real &a, const Real &b) { return Bool(a < b); }
inline Bool le(const Real &a, const Real &b) { return Bool(a <= b); }
inline Bool gt(const Real &a, const Real &b) { return Bool(a > b); }
inline Bool ge(const Real &a, const Real &b) { return Bool(a >= b); }
inline Bool eq(const Real &a, const Real &b) { return Bool(a == b); }
inline Bool ne(const Real &a, const Real &b) { return Bool(a != b); }
// the positive square root of `square`: a new generator of the tower (or the existing one of that name)
inline Real algebraic(const std::string &name, const Real &square) {
  auto &T = Tower::get();
  for (size_t i = 0; i < T.names.size(); i++)
    if (T.names[i] == name) {
      V g(size_t(1) << T.K(), Q(0));
      g[size_t(1) << i] = Q(1);
      return Real(Real::FromV{}, g);
    }
  if (square.sign() <= 0) throw AbortCase("algebraic(): square not positive");
  T.squares.push_back(square.full());  // lives in the field generated so far
  T.names.push_back(name);
  V g(size_t(1) << T.K(), Q(0));
  g[size_t(1) << (T.K() - 1)] = Q(1);
  return Real(Real::FromV{}, g);
}
#endif

#ifndef SYMT_STRICT
// Conveniences that are NOT part of the documented scalar requirements (C19 builds with -DSYMT_STRICT and does not
// get them). They exist so that a change which starts to use <cmath>/<limits> on T can still be *decided* for the
// other properties instead of merely failing to compile: abs forks on the sign, and the numeric_limits constants are
// free positive symbolic values ("T has some epsilon"), so a guard such as `h <= epsilon()` is explored on both sides.
inline Real abs(const Real &x) { return x < Real(0) ? -x : x; }
inline Real fabs(const Real &x) { return abs(x); }
inline Real limit_constant(const char *name) {
  Real v = Real::var(name);
  Engine::get().assume(gt(v, Real(0)));
  return v;
}
#endif
#ifdef SYMT_TRIVIAL
#undef Real
// C19 archetype, second flavour: a TRIVIALLY COPYABLE scalar (a 4-byte handle into a table of numbers) whose all-zero object
// representation is NOT the number zero: a handle of 0 - what memset(…, 0, …) or value-initialised raw storage produces - or any
// other byte pattern that was never handed out denotes an arbitrary number (a fresh unconstrained symbol at every read). memcpy of
// such scalars is legitimate (it copies the value); relying on zeroed bytes being static_cast<T>(0) is not.
class Real {
  uint32_t h;
  static std::deque<RealImpl> &tab() {
    static std::deque<RealImpl> t(1);
    return t;
  }
  static uint32_t put(const RealImpl &r) {
#ifndef SYMT_CONCRETE
    // one slot per distinct term (z3 hash-conses terms, so re-executed paths reuse their slots)
    static std::map<std::pair<unsigned, FacMS>, uint32_t> known;
    auto key = std::make_pair((unsigned)Z3_get_ast_id(ctx(), r.num_()), r.den_());
    auto it = known.find(key);
    if (it != known.end()) return it->second;
    tab().push_back(r);
    known.emplace(key, (uint32_t)(tab().size() - 1));
#else
    tab().push_back(r);
#endif
    return (uint32_t)(tab().size() - 1);
  }

 public:
  Real() : h(put(RealImpl())) {}
  template <typename I, std::enable_if_t<std::is_integral_v<I>, bool> = true>
  explicit Real(I i) : h(put(RealImpl(i))) {}
  Real(const RealImpl &r) : h(put(r)) {}
  Real(const Real &) = default;
  Real &operator=(const Real &) = default;
  const RealImpl &get() const {
    if (h == 0 || h >= tab().size()) {
      tab().push_back(RealImpl::var("rawbytes" + std::to_string(Engine::get().uninit_counter++)));
      return tab().back();
    }
    return tab()[h];
  }
  operator const RealImpl &() const { return get(); }
  static Real var(const std::string &nm) { return Real(RealImpl::var(nm)); }
  static Real frac(long long a, long long b) { return Real(RealImpl::frac(a, b)); }
  Real operator+(const Real &o) const { return Real(get() + o.get()); }
  Real operator-(const Real &o) const { return Real(get() - o.get()); }
  Real operator*(const Real &o) const { return Real(get() * o.get()); }
  Real operator/(const Real &o) const { return Real(get() / o.get()); }
  Real operator-() const { return Real(-get()); }
  Real &operator+=(const Real &o) { return *this = *this + o; }
  Real &operator-=(const Real &o) { return *this = *this - o; }
  Real &operator*=(const Real &o) { return *this = *this * o; }
  Real &operator/=(const Real &o) { return *this = *this / o; }
  bool operator<(const Real &o) const { return get() < o.get(); }
  bool operator<=(const Real &o) const { return get() <= o.get(); }
  bool operator>(const Real &o) const { return get() > o.get(); }
  bool operator>=(const Real &o) const { return get() >= o.get(); }
  bool operator==(const Real &o) const { return get() == o.get(); }
  bool operator!=(const Real &o) const { return get() != o.get(); }
};
static_assert(std::is_trivially_copyable_v<Real> && sizeof(Real) == 4, "the handle archetype must be trivially copyable");
#endif
}  // namespace sym

#ifndef SYMT_STRICT
namespace std {
template <>
struct numeric_limits<sym::Real> {
  static constexpr bool is_specialized = true, is_signed = true, is_integer = false, is_exact = false, has_infinity = false, has_quiet_NaN = false;
  static sym::Real epsilon() { return sym::limit_constant("limits_epsilon"); }
  static sym::Real min() { return sym::limit_constant("limits_min"); }
  static sym::Real max() { return sym::limit_constant("limits_max"); }
  static sym::Real lowest() { return -sym::limit_constant("limits_max"); }
  static sym::Real round_error() { return sym::Real::frac(1, 2); }
};
}  // namespace std
#endif
